//! E-NET: a simulated DNS universe behind the transport hook, a runner that
//! drives the real `dns_resolver::resolve` on a paused tokio clock, and a
//! deviation-bounded choice-point explorer (candidate order, per-exchange
//! faults).

use crate::refwire::{self, Compress};
use crate::refzone::{FlatRec, FlatZone, RefResult};
use crate::util::*;
use dns_resolver::cache::SharedCache;
use dns_resolver::util::types::{ProtocolMode, ResolutionError, ResolvedRecord};
use dns_resolver::verif::transport::{Proto, Reply, Transport};
use dns_types::protocol::types::*;
use dns_types::zones::types::{Zone, Zones};
use serde_json::{json, Value};
use std::collections::{BTreeMap, BTreeSet};
use std::net::{IpAddr, SocketAddr};
use std::rc::Rc;
use std::sync::{Arc, Mutex};
use std::time::Duration;

// ---------------------------------------------------------------------------
// Universe
// ---------------------------------------------------------------------------

#[derive(Debug, Clone)]
pub struct Universe {
    /// Authoritative zones (each with an SOA).  Records include NS sets at the
    /// apex and at cuts, and glue address records beneath cuts.
    pub zones: Vec<FlatZone>,
    /// server address -> indices of the zones it serves
    pub serving: BTreeMap<IpAddr, Vec<usize>>,
    /// root hints: (nameserver name, addresses)
    pub hints: Vec<(DomainName, Vec<IpAddr>)>,
    /// servers put address records for nameserver hosts into the additional
    /// section of referrals
    pub send_additional: bool,
    /// servers follow CNAMEs inside their own zones within one reply
    pub chase_in_reply: bool,
    /// AAAA before A in the additional section of referrals
    pub v6_glue_first: bool,
    /// referrals carry address records of this family only (4 / 6; 0 = both)
    pub glue_family: u8,
    pub description: String,
    /// a recursive server (answers every question with the truth, RA set)
    pub forwarder: Option<IpAddr>,
    /// addresses at which nobody ever answers
    pub silent: BTreeSet<IpAddr>,
}

#[derive(Debug, Clone, Eq, PartialEq)]
pub enum ReplyKind {
    Answer,
    Cname,
    NoData,
    NxDomain,
    Referral,
    Refused,
}

#[derive(Debug, Clone)]
pub struct HonestReply {
    pub kind: ReplyKind,
    pub msg: Message,
    /// depth (label count) of the zone that answered / of the cut referred to
    pub zone_depth: usize,
}

#[derive(Debug, Clone, Eq, PartialEq)]
pub enum Truth {
    /// CNAME chain (in order) followed by the final record set
    Records(Vec<ResourceRecord>, Vec<ResourceRecord>),
    /// chain, SOA of the zone that says the type does not exist
    NoData(Vec<ResourceRecord>, ResourceRecord),
    /// chain, SOA of the zone that says the name does not exist
    NxDomain(Vec<ResourceRecord>, ResourceRecord),
    /// alias loop or no zone: nothing is promised
    Undefined(Vec<ResourceRecord>),
}

impl Universe {
    pub fn zone_for(&self, name: &DomainName, among: Option<&[usize]>) -> Option<usize> {
        let mut best: Option<usize> = None;
        let idxs: Vec<usize> = match among {
            Some(a) => a.to_vec(),
            None => (0..self.zones.len()).collect(),
        };
        for i in idxs {
            let z = &self.zones[i];
            if name.is_subdomain_of(&z.apex) {
                match best {
                    Some(b) if self.zones[b].apex.labels.len() >= z.apex.labels.len() => {}
                    _ => best = Some(i),
                }
            }
        }
        best
    }

    fn soa_rr(&self, zi: usize) -> ResourceRecord {
        let z = &self.zones[zi];
        z.soa.as_ref().expect("universe zones have an SOA").to_rr(&z.apex)
    }

    /// What an honest authoritative server at `addr` says.
    pub fn respond(&self, addr: IpAddr, request: &Message) -> HonestReply {
        let mut msg = request.make_response();
        msg.header.recursion_available = false;
        msg.header.is_authoritative = false;
        let refused = |mut msg: Message| {
            msg.header.rcode = Rcode::Refused;
            HonestReply {
                kind: ReplyKind::Refused,
                msg,
                zone_depth: 0,
            }
        };
        if request.questions.len() != 1 {
            return refused(msg);
        }
        let q = &request.questions[0];
        if self.forwarder == Some(addr) {
            msg.header.recursion_available = true;
            let (kind, depth) = match self.truth(q) {
                Truth::Records(chain, fin) => {
                    msg.answers.extend(chain);
                    msg.answers.extend(fin);
                    (ReplyKind::Answer, 0)
                }
                Truth::NoData(chain, soa) => {
                    msg.answers.extend(chain);
                    msg.authority.push(soa);
                    (ReplyKind::NoData, 0)
                }
                Truth::NxDomain(chain, soa) => {
                    msg.answers.extend(chain);
                    msg.authority.push(soa);
                    msg.header.rcode = Rcode::NameError;
                    (ReplyKind::NxDomain, 0)
                }
                Truth::Undefined(chain) => {
                    if chain.is_empty() {
                        msg.header.rcode = Rcode::ServerFailure;
                        (ReplyKind::Refused, 0)
                    } else {
                        // the chain leaves what this server can resolve
                        msg.answers.extend(chain);
                        (ReplyKind::Cname, 0)
                    }
                }
            };
            return HonestReply {
                kind,
                msg,
                zone_depth: depth,
            };
        }
        let served = match self.serving.get(&addr) {
            Some(s) => s.clone(),
            None => return refused(msg),
        };
        let mut name = q.name.clone();
        let mut kind = ReplyKind::Answer;
        let mut depth = 0;
        let mut hops = 0;
        loop {
            let zi = match self.zone_for(&name, Some(&served)) {
                Some(z) => z,
                None => {
                    if msg.answers.is_empty() {
                        return refused(msg);
                    }
                    break;
                }
            };
            let z = &self.zones[zi];
            let all = z.all();
            depth = z.apex.labels.len();
            // a name at or beneath a zone cut is referred, whatever the type
            // (also an NS question at the cut itself: RFC 1034 4.3.2 step 3b)
            let probe = z.resolve_with(&all, &name, QueryType::Record(RecordType::A));
            let res = if matches!(probe, Some(RefResult::Delegation(_))) {
                probe
            } else {
                z.resolve_with(&all, &name, q.qtype)
            };
            match res {
                Some(RefResult::Answer(rrs)) => {
                    msg.header.is_authoritative = true;
                    if rrs.is_empty() {
                        msg.authority.push(self.soa_rr(zi));
                        if msg.answers.is_empty() {
                            kind = ReplyKind::NoData;
                        }
                    } else {
                        msg.answers.extend(rrs);
                        if kind != ReplyKind::Cname || true {
                            kind = ReplyKind::Answer;
                        }
                    }
                    break;
                }
                Some(RefResult::NameError) => {
                    msg.header.is_authoritative = true;
                    msg.authority.push(self.soa_rr(zi));
                    if msg.answers.is_empty() {
                        msg.header.rcode = Rcode::NameError;
                        kind = ReplyKind::NxDomain;
                    }
                    break;
                }
                Some(RefResult::Cname(rr)) => {
                    msg.header.is_authoritative = true;
                    let target = match &rr.rtype_with_data {
                        RecordTypeWithData::CNAME { cname } => cname.clone(),
                        _ => unreachable!(),
                    };
                    msg.answers.push(rr);
                    kind = ReplyKind::Cname;
                    hops += 1;
                    if self.chase_in_reply && hops < 8 {
                        name = target;
                        continue;
                    }
                    break;
                }
                Some(RefResult::Delegation(ns)) => {
                    if msg.answers.is_empty() {
                        kind = ReplyKind::Referral;
                        depth = ns[0].name.labels.len();
                        {
                            for n in &ns {
                                if let RecordTypeWithData::NS { nsdname } = &n.rtype_with_data {
                                    // glue (hosts beneath the cut) is always
                                    // sent; other addresses only if configured
                                    if !self.send_additional && !nsdname.is_subdomain_of(&n.name) {
                                        continue;
                                    }
                                    for zj in &served {
                                        for r in self.zones[*zj].all() {
                                            if !r.wildcard
                                                && r.owner == *nsdname
                                                && matches!(
                                                    r.data.rtype(),
                                                    RecordType::A | RecordType::AAAA
                                                )
                                            {
                                                let g = rr(&r.owner, r.data.clone(), r.ttl);
                                                if !msg.additional.contains(&g) {
                                                    msg.additional.push(g);
                                                }
                                            }
                                        }
                                    }
                                }
                            }
                        }
                        if self.v6_glue_first {
                            msg.additional.sort_by_key(|r| r.rtype_with_data.rtype() != RecordType::AAAA);
                        }
                        match self.glue_family {
                            4 => msg.additional.retain(|r| r.rtype_with_data.rtype() != RecordType::AAAA),
                            6 => msg.additional.retain(|r| r.rtype_with_data.rtype() != RecordType::A),
                            _ => {}
                        }
                        msg.authority.extend(ns);
                    }
                    break;
                }
                None => break,
            }
        }
        HonestReply {
            kind,
            msg,
            zone_depth: depth,
        }
    }

    /// The answer the hierarchy holds for a question (following CNAMEs
    /// across zones).
    pub fn truth(&self, q: &Question) -> Truth {
        let mut chain: Vec<ResourceRecord> = Vec::new();
        let mut name = q.name.clone();
        let mut seen: BTreeSet<DomainName> = BTreeSet::new();
        loop {
            if !seen.insert(name.clone()) {
                return Truth::Undefined(chain);
            }
            let zi = match self.zone_for(&name, None) {
                Some(z) => z,
                None => return Truth::Undefined(chain),
            };
            let z = &self.zones[zi];
            match z.resolve(&name, q.qtype) {
                Some(RefResult::Answer(rrs)) => {
                    return if rrs.is_empty() {
                        Truth::NoData(chain, self.soa_rr(zi))
                    } else {
                        Truth::Records(chain, rrs)
                    };
                }
                Some(RefResult::NameError) => return Truth::NxDomain(chain, self.soa_rr(zi)),
                Some(RefResult::Cname(rr)) => {
                    if let RecordTypeWithData::CNAME { cname } = &rr.rtype_with_data {
                        name = cname.clone();
                    }
                    chain.push(rr);
                }
                // the deepest zone never refers elsewhere in a consistent universe
                Some(RefResult::Delegation(_)) | None => return Truth::Undefined(chain),
            }
        }
    }

    /// Root hints as the non-authoritative root zone (as `root.hints` would be).
    pub fn hints_zone(&self) -> Zone {
        let mut z = Zone::default();
        let root = DomainName::root_domain();
        for (ns_name, addrs) in &self.hints {
            z.insert(&root, ns(ns_name), 3_600_000);
            for a in addrs {
                match a {
                    IpAddr::V4(v4) => z.insert(
                        ns_name,
                        RecordTypeWithData::A { address: *v4 },
                        3_600_000,
                    ),
                    IpAddr::V6(v6) => z.insert(
                        ns_name,
                        RecordTypeWithData::AAAA { address: *v6 },
                        3_600_000,
                    ),
                }
            }
        }
        z
    }

    pub fn all_addresses(&self) -> BTreeSet<IpAddr> {
        self.serving.keys().cloned().collect()
    }

    pub fn describe(&self) -> Value {
        json!({
            "description": self.description,
            "zones": self.zones.iter().map(|z| json!({
                "apex": show_name(&z.apex),
                "records": z.recs.iter().map(|r| format!("{}{} {} {}", if r.wildcard {"*."} else {""}, show_name(&r.owner), r.ttl, show_data(&r.data))).collect::<Vec<_>>(),
            })).collect::<Vec<_>>(),
            "servers": self.serving.iter().map(|(a, zs)| format!("{a} serves {:?}", zs.iter().map(|i| show_name(&self.zones[*i].apex)).collect::<Vec<_>>())).collect::<Vec<_>>(),
            "hints": self.hints.iter().map(|(n, a)| format!("{} {:?}", show_name(n), a)).collect::<Vec<_>>(),
            "send_additional": self.send_additional,
            "chase_in_reply": self.chase_in_reply,
        })
    }
}

// ---------------------------------------------------------------------------
// Faults
// ---------------------------------------------------------------------------

#[derive(Debug, Clone, Eq, PartialEq)]
pub enum Fault {
    Honest,
    /// never answers on this transport
    Silent,
    /// honest answer after this many milliseconds
    Delay(u64),
    Garbage,
    /// honest reply cut to this fraction (numerator / 8) of its length
    Truncate(u8),
    WrongId,
    Qr0,
    /// TC flag set
    Tc,
    Rcode(u8),
    AlterQuestion,
    NoQuestion,
    TwoQuestions,
    WrongOpcode,
    /// NOERROR, no records at all
    Empty,
    /// referral to the very zone that was asked (same depth)
    ReferralSame,
    /// referral to the root (upwards)
    ReferralUp,
    /// referral one label deeper to nameservers that do not exist anywhere
    ReferralUnresolvable,
    CnameSelf,
    CnameCycle2,
    /// alias loop of n names from the question name + unrelated aliases in the same reply
    CnameLoopStray(u8),
    NxForeignSoa,
    /// I/O error (connection refused / send failed)
    IoError,
    /// replace the honest reply by this message (header id/question are
    /// patched from the request unless `raw_header`)
    Substitute(Box<Message>),
    /// as `Substitute` (id and question copied from the request) with one
    /// header defect applied afterwards
    SubstituteMangled(Box<Message>, Mangle),
}

#[derive(Debug, Clone, Copy, Eq, PartialEq)]
pub enum Mangle {
    WrongId,
    Qr0,
    Opcode,
    Tc,
    Rcode(u8),
    AlterQuestion,
    QuestionType,
    NoQuestion,
    TwoQuestions,
}

pub fn show_fault(f: &Fault) -> String {
    match f {
        Fault::Substitute(m) => format!(
            "Substitute(an={:?}, ns={:?}, ar={:?})",
            canon_rrs(&m.answers),
            canon_rrs(&m.authority),
            canon_rrs(&m.additional)
        ),
        Fault::SubstituteMangled(m, g) => format!(
            "SubstituteMangled({g:?}, an={:?}, ns={:?}, ar={:?})",
            canon_rrs(&m.answers),
            canon_rrs(&m.authority),
            canon_rrs(&m.additional)
        ),
        other => format!("{other:?}"),
    }
}

fn garbage(len: usize, seed: u8) -> Vec<u8> {
    // fixed, not random: a byte pattern that is not a DNS message
    (0..len)
        .map(|i| (i as u8).wrapping_mul(37).wrapping_add(seed) | 0x41)
        .collect()
}

/// Bytes to send (None = I/O error), or `Err(())` for silence; plus a delay.
fn apply_fault(
    fault: &Fault,
    universe: &Universe,
    request: &Message,
    honest: &HonestReply,
) -> (Result<Option<Vec<u8>>, ()>, u64) {
    let enc = |m: &Message| refwire::encode(m, Compress::Suffix);
    let q = request.questions.first().cloned();
    let mut delay = 0u64;
    let bytes = match fault {
        Fault::Honest => Some(enc(&honest.msg)),
        Fault::Silent => return (Err(()), 0),
        Fault::IoError => None,
        Fault::Delay(ms) => {
            delay = *ms;
            Some(enc(&honest.msg))
        }
        Fault::Garbage => Some(garbage(40, request.header.id as u8)),
        Fault::Truncate(eighths) => {
            let b = enc(&honest.msg);
            let n = b.len() * (*eighths as usize) / 8;
            Some(b[..n.max(1)].to_vec())
        }
        Fault::WrongId => {
            let mut m = honest.msg.clone();
            m.header.id = m.header.id.wrapping_add(1);
            Some(enc(&m))
        }
        Fault::Qr0 => {
            let mut m = honest.msg.clone();
            m.header.is_response = false;
            Some(enc(&m))
        }
        Fault::Tc => {
            let mut m = honest.msg.clone();
            m.header.is_truncated = true;
            Some(enc(&m))
        }
        Fault::Rcode(c) => {
            let mut m = honest.msg.clone();
            m.header.rcode = Rcode::from(*c);
            Some(enc(&m))
        }
        Fault::WrongOpcode => {
            let mut m = honest.msg.clone();
            m.header.opcode = Opcode::from(2);
            Some(enc(&m))
        }
        Fault::AlterQuestion => {
            let mut m = honest.msg.clone();
            if let Some(qq) = m.questions.first_mut() {
                qq.name = prepend(b"other", &qq.name);
            }
            Some(enc(&m))
        }
        Fault::NoQuestion => {
            let mut m = honest.msg.clone();
            m.questions.clear();
            Some(enc(&m))
        }
        Fault::TwoQuestions => {
            let mut m = honest.msg.clone();
            if let Some(qq) = m.questions.first().cloned() {
                m.questions.push(qq);
            }
            Some(enc(&m))
        }
        Fault::Empty => {
            let mut m = request.make_response();
            m.header.recursion_available = false;
            Some(enc(&m))
        }
        Fault::ReferralSame | Fault::ReferralUp | Fault::ReferralUnresolvable => {
            let mut m = request.make_response();
            m.header.recursion_available = false;
            if let Some(q) = &q {
                let depth = match fault {
                    Fault::ReferralSame => honest.zone_depth.min(q.name.labels.len()),
                    Fault::ReferralUp => 1,
                    _ => (honest.zone_depth + 1).min(q.name.labels.len()),
                };
                let cut = DomainName::from_labels(
                    q.name.labels[q.name.labels.len() - depth.max(1)..].to_vec(),
                )
                .unwrap();
                let host = match fault {
                    Fault::ReferralUnresolvable => dn("ns.does-not-exist.invalid."),
                    _ => universe
                        .hints
                        .first()
                        .map(|h| h.0.clone())
                        .unwrap_or_else(|| dn("ns.invalid.")),
                };
                m.authority.push(rr(&cut, ns(&host), 300));
            }
            Some(enc(&m))
        }
        Fault::CnameSelf => {
            let mut m = request.make_response();
            m.header.recursion_available = false;
            m.header.is_authoritative = true;
            if let Some(q) = &q {
                m.answers.push(rr(&q.name, cname(&q.name), 300));
            }
            Some(enc(&m))
        }
        Fault::CnameCycle2 => {
            let mut m = request.make_response();
            m.header.recursion_available = false;
            m.header.is_authoritative = true;
            if let Some(q) = &q {
                let other = prepend(b"loop", &q.name);
                m.answers.push(rr(&q.name, cname(&other), 300));
                m.answers.push(rr(&other, cname(&q.name), 300));
            }
            Some(enc(&m))
        }
        Fault::CnameLoopStray(len) => {
            // an alias loop of `len` names reachable from the question name,
            // next to aliases that are not on that path
            let mut m = request.make_response();
            m.header.recursion_available = false;
            m.header.is_authoritative = true;
            if let Some(q) = &q {
                let mut names = vec![q.name.clone()];
                for i in 1..*len {
                    names.push(prepend(format!("loop{i}").as_bytes(), &q.name));
                }
                m.answers.push(rr(&dn("stray1.invalid."), cname(&dn("tracker.invalid.")), 300));
                for i in 0..names.len() {
                    let next = names[(i + 1) % names.len()].clone();
                    m.answers.push(rr(&names[i], cname(&next), 300));
                }
                m.answers.push(rr(&dn("stray2.invalid."), cname(&dn("stray1.invalid.")), 300));
            }
            Some(enc(&m))
        }
        Fault::NxForeignSoa => {
            let mut m = request.make_response();
            m.header.recursion_available = false;
            m.header.is_authoritative = true;
            m.header.rcode = Rcode::NameError;
            let foreign = dn("foreign.invalid.");
            m.authority
                .push(rr(&foreign, soa_data(&dn("ns.foreign.invalid."), 1, 60), 60));
            Some(enc(&m))
        }
        Fault::Substitute(sub) => {
            let mut m = (**sub).clone();
            m.header.id = request.header.id;
            if m.questions.is_empty() {
                m.questions = request.questions.clone();
            }
            Some(enc(&m))
        }
        Fault::SubstituteMangled(sub, mangle) => {
            let mut m = (**sub).clone();
            m.header.id = request.header.id;
            m.questions = request.questions.clone();
            match mangle {
                Mangle::WrongId => m.header.id = m.header.id.wrapping_add(1),
                Mangle::Qr0 => m.header.is_response = false,
                Mangle::Opcode => m.header.opcode = Opcode::from(2),
                Mangle::Tc => m.header.is_truncated = true,
                Mangle::Rcode(c) => m.header.rcode = Rcode::from(*c),
                Mangle::AlterQuestion => {
                    if let Some(qq) = m.questions.first_mut() {
                        qq.name = prepend(b"other", &qq.name);
                    }
                }
                Mangle::QuestionType => {
                    if let Some(qq) = m.questions.first_mut() {
                        qq.qtype = QueryType::Record(RecordType::MX);
                    }
                }
                Mangle::NoQuestion => m.questions.clear(),
                Mangle::TwoQuestions => {
                    if let Some(qq) = m.questions.first().cloned() {
                        m.questions.push(qq);
                    }
                }
            }
            Some(enc(&m))
        }
    };
    (Ok(bytes), delay)
}

// ---------------------------------------------------------------------------
// Choice points
// ---------------------------------------------------------------------------

#[derive(Debug, Clone, Eq, PartialEq)]
pub enum PointKind {
    Order,
    Fault,
}

#[derive(Debug, Clone)]
pub struct Point {
    pub kind: PointKind,
    pub arity: usize,
    pub taken: usize,
}

#[derive(Debug, Clone)]
pub struct Exchange {
    pub index: usize,
    pub start_ns: u64,
    pub end_ns: Option<u64>,
    pub proto: Proto,
    pub addr: SocketAddr,
    pub question: Option<Question>,
    pub rd: bool,
    pub fault: Fault,
    pub honest_kind: ReplyKind,
    pub honest_depth: usize,
    /// records of the reply as sent (if it decodes)
    pub sent: Vec<ResourceRecord>,
    /// the reply as sent, if it decodes as a whole
    pub sent_msg: Option<Message>,
    /// label count of the deepest zone served at the address asked (0 = none)
    pub server_depth: usize,
    /// unexpired address records in the cache when the exchange started
    /// (only recorded when `RunSpec::record_held`)
    pub held_addrs: Vec<(DomainName, IpAddr)>,
    /// which step (question of the history) this belongs to
    pub step: usize,
}

#[derive(Default)]
struct EnvState {
    prefix: Vec<usize>,
    points: Vec<Point>,
    log: Vec<Exchange>,
    step: usize,
    divergence: Option<String>,
    upstream_enabled: bool,
}

pub struct Env {
    universe: Arc<Universe>,
    faults: Vec<Fault>,
    /// only the first `fault_window` exchanges of a step are fault choice
    /// points (later ones are honest)
    fault_window: usize,
    /// faults apply only to exchanges of these steps (None = all)
    explore_orders: bool,
    state: Mutex<EnvState>,
    /// the cache of the run (to record which addresses were held at the time
    /// of each exchange)
    cache: Mutex<Option<SharedCache>>,
    record_held: bool,
    sticky: Vec<(IpAddr, Fault)>,
    t0: tokio::time::Instant,
}

impl Env {
    fn choose(&self, kind: PointKind, arity: usize) -> usize {
        let mut s = self.state.lock().unwrap();
        let i = s.points.len();
        let taken = if i < s.prefix.len() {
            let c = s.prefix[i];
            if c >= arity {
                s.divergence = Some(format!(
                    "replayed choice {c} at point {i} out of range (arity {arity})"
                ));
                0
            } else {
                c
            }
        } else {
            0
        };
        s.points.push(Point { kind, arity, taken });
        taken
    }

    fn now_ns(&self) -> u64 {
        (tokio::time::Instant::now() - self.t0).as_nanos() as u64
    }
}

struct EndGuard {
    env: Arc<Env>,
    index: usize,
}

impl Drop for EndGuard {
    fn drop(&mut self) {
        let t = self.env.now_ns();
        let mut s = self.env.state.lock().unwrap();
        if let Some(e) = s.log.get_mut(self.index) {
            if e.end_ns.is_none() {
                e.end_ns = Some(t);
            }
        }
    }
}

struct MockTransport {
    env: Arc<Env>,
}

fn factorial(n: usize) -> usize {
    (1..=n).product::<usize>().max(1)
}

/// k-th permutation (lexicographic) of `v`.
fn permute<T: Clone>(v: &[T], mut k: usize) -> Vec<T> {
    let mut items: Vec<T> = v.to_vec();
    let mut out = Vec::with_capacity(items.len());
    let n = items.len();
    for i in 0..n {
        let f = factorial(n - 1 - i);
        let idx = k / f;
        k %= f;
        out.push(items.remove(idx));
    }
    out
}

impl Transport for MockTransport {
    fn exchange(&self, proto: Proto, address: SocketAddr, request: &[u8]) -> Reply {
        let env = self.env.clone();
        let decoded = refwire::decode(request).ok();
        let start = env.now_ns();
        let (index, step, enabled) = {
            let s = env.state.lock().unwrap();
            (s.log.len(), s.step, s.upstream_enabled)
        };
        let in_window = {
            let s = env.state.lock().unwrap();
            s.log.iter().filter(|e| e.step == step).count() < env.fault_window
        };
        let honest = match &decoded {
            Some(m) => env.universe.respond(address.ip(), m),
            None => HonestReply {
                kind: ReplyKind::Refused,
                msg: Message::make_format_error_response(0),
                zone_depth: 0,
            },
        };
        let fault = if !enabled || env.universe.silent.contains(&address.ip()) {
            Fault::Silent
        } else if let Some((_, f)) = env.sticky.iter().find(|(a, _)| *a == address.ip()) {
            f.clone()
        } else if env.faults.len() > 1 && in_window {
            let c = env.choose(PointKind::Fault, env.faults.len());
            env.faults[c].clone()
        } else {
            Fault::Honest
        };
        let (outcome, delay_ms) = match &decoded {
            Some(m) => apply_fault(&fault, &env.universe, m, &honest),
            None => (Ok(None), 0),
        };
        let sent = match &outcome {
            Ok(Some(b)) => refwire::decode_prefix_records(b),
            _ => Vec::new(),
        };
        let held: Vec<(DomainName, IpAddr)> = if env.record_held {
            let cache = env.cache.lock().unwrap().clone();
            match cache {
                Some(c) => dump_cache(&c)
                    .into_iter()
                    .filter(|r| r.ttl > 0)
                    .filter_map(|r| match r.rtype_with_data {
                        RecordTypeWithData::A { address } => Some((r.name, IpAddr::V4(address))),
                        RecordTypeWithData::AAAA { address } => Some((r.name, IpAddr::V6(address))),
                        _ => None,
                    })
                    .collect(),
                None => Vec::new(),
            }
        } else {
            Vec::new()
        };
        {
            let mut s = env.state.lock().unwrap();
            s.log.push(Exchange {
                index,
                start_ns: start,
                end_ns: None,
                proto,
                addr: address,
                question: decoded.as_ref().and_then(|m| m.questions.first().cloned()),
                rd: decoded
                    .as_ref()
                    .map(|m| m.header.recursion_desired)
                    .unwrap_or(false),
                fault: fault.clone(),
                honest_kind: honest.kind.clone(),
                honest_depth: honest.zone_depth,
                sent,
                sent_msg: match &outcome {
                    Ok(Some(b)) => refwire::decode(b).ok(),
                    _ => None,
                },
                server_depth: env
                    .universe
                    .serving
                    .get(&address.ip())
                    .and_then(|zs| zs.iter().map(|z| env.universe.zones[*z].apex.labels.len()).max())
                    .unwrap_or(0),
                held_addrs: held,
                step,
            });
        }
        let guard = EndGuard {
            env: env.clone(),
            index,
        };
        Box::pin(async move {
            let _guard = guard;
            match outcome {
                Err(()) => {
                    std::future::pending::<()>().await;
                    None
                }
                Ok(bytes) => {
                    if delay_ms > 0 {
                        tokio::time::sleep(Duration::from_millis(delay_ms)).await;
                    }
                    bytes
                }
            }
        })
    }
}

// ---------------------------------------------------------------------------
// Runner
// ---------------------------------------------------------------------------

#[derive(Debug, Clone)]
pub enum Mode {
    Local,
    Recursive,
    Forwarding(SocketAddr),
}

#[derive(Debug, Clone)]
pub enum Step {
    Ask(Question),
    Advance(Duration),
    /// upstream goes silent from here on (every exchange is dropped)
    UpstreamOff,
    /// insert records into the cache (as if left by an earlier resolution)
    Seed(Vec<ResourceRecord>),
}

#[derive(Clone)]
pub struct RunSpec {
    pub universe: Arc<Universe>,
    /// local zones in addition to (merged with) the hints zone
    pub zones: Zones,
    pub cache_size: usize,
    pub steps: Vec<Step>,
    pub mode: Mode,
    pub protocol_mode: ProtocolMode,
    pub port: u16,
    /// index 0 must be `Fault::Honest`
    pub faults: Vec<Fault>,
    pub fault_window: usize,
    pub explore_orders: bool,
    pub record_held: bool,
    /// servers that misbehave in one way on *every* exchange (no choice
    /// point; positional faults apply to the other servers only)
    pub sticky: Vec<(IpAddr, Fault)>,
}

#[derive(Debug, Clone)]
pub enum Outcome {
    Ok(ResolvedRecord),
    Err(ResolutionError),
    Panic(String),
}

#[derive(Debug, Clone)]
pub struct AskResult {
    pub question: Question,
    pub outcome: Outcome,
    pub start_ns: u64,
    pub end_ns: u64,
    /// cache contents after this question: (name, data, remaining ttl)
    pub cache_after: Vec<ResourceRecord>,
}

#[derive(Debug, Clone)]
pub struct RunResult {
    pub asks: Vec<AskResult>,
    pub log: Vec<Exchange>,
    pub points: Vec<Point>,
    pub divergence: Option<String>,
}

/// Names whose cache entries are dumped after each question.
fn dump_cache(cache: &SharedCache) -> Vec<ResourceRecord> {
    let snap = cache.verif_snapshot();
    let now = dns_resolver::verif::clock::offset_of(dns_resolver::verif::clock::Instant::now());
    let mut out = Vec::new();
    for p in &snap.partitions {
        for (_, tuples) in &p.records {
            for (v, e) in tuples {
                let remaining = e.saturating_sub(now).as_secs() as u32;
                out.push(rr(&p.name, v.clone(), remaining));
            }
        }
    }
    out.sort();
    out
}

pub fn run_once(spec: &RunSpec, prefix: &[usize]) -> RunResult {
    crate::procpar::beat();
    let rt = tokio::runtime::Builder::new_current_thread()
        .enable_time()
        .start_paused(true)
        .build()
        .expect("tokio runtime");
    let result = rt.block_on(async {
        let t0 = tokio::time::Instant::now();
        let env = Arc::new(Env {
            universe: spec.universe.clone(),
            faults: spec.faults.clone(),
            fault_window: spec.fault_window,
            explore_orders: spec.explore_orders,
            state: Mutex::new(EnvState {
                prefix: prefix.to_vec(),
                upstream_enabled: true,
                ..Default::default()
            }),
            cache: Mutex::new(None),
            record_held: spec.record_held,
            sticky: spec.sticky.clone(),
            t0,
        });
        // hooks
        dns_resolver::verif::clock::set_provider(Some(Rc::new(move || {
            Duration::from_secs(1000) + (tokio::time::Instant::now() - t0)
        })));
        dns_resolver::verif::transport::set(Some(Arc::new(MockTransport { env: env.clone() })));
        {
            let env2 = env.clone();
            dns_resolver::verif::set_candidate_order(Some(Rc::new(
                move |c: &mut Vec<DomainName>| {
                    c.sort();
                    if env2.explore_orders && c.len() > 1 && c.len() <= 4 {
                        let k = env2.choose(PointKind::Order, factorial(c.len()));
                        let p = permute(c, k);
                        *c = p;
                    }
                },
            )));
        }

        let cache = SharedCache::with_desired_size(spec.cache_size);
        *env.cache.lock().unwrap() = Some(cache.clone());
        let mut asks = Vec::new();
        let mut step_no = 0usize;
        for step in &spec.steps {
            match step {
                Step::Advance(d) => tokio::time::advance(*d).await,
                Step::UpstreamOff => env.state.lock().unwrap().upstream_enabled = false,
                Step::Seed(rrs) => cache.insert_all(rrs),
                Step::Ask(q) => {
                    env.state.lock().unwrap().step = step_no;
                    let start = env.now_ns();
                    let (is_recursive, fwd) = match &spec.mode {
                        Mode::Local => (false, None),
                        Mode::Recursive => (true, None),
                        Mode::Forwarding(a) => (true, Some(*a)),
                    };
                    let fut = dns_resolver::resolve(
                        is_recursive,
                        spec.protocol_mode,
                        spec.port,
                        fwd,
                        &spec.zones,
                        &cache,
                        q,
                    );
                    let outcome = match (CatchUnwind { inner: Box::pin(fut) }).await {
                        Ok((_metrics, Ok(r))) => Outcome::Ok(r),
                        Ok((_metrics, Err(e))) => Outcome::Err(e),
                        Err(msg) => Outcome::Panic(msg),
                    };
                    let end = env.now_ns();
                    asks.push(AskResult {
                        question: q.clone(),
                        outcome,
                        start_ns: start,
                        end_ns: end,
                        cache_after: dump_cache(&cache),
                    });
                    step_no += 1;
                }
            }
        }
        let (log, points, divergence) = {
            let mut s = env.state.lock().unwrap();
            (
                std::mem::take(&mut s.log),
                std::mem::take(&mut s.points),
                s.divergence.take(),
            )
        };
        RunResult {
            asks,
            log,
            points,
            divergence,
        }
    });
    dns_resolver::verif::clock::set_provider(None);
    dns_resolver::verif::transport::set(None);
    dns_resolver::verif::set_candidate_order(None);
    result
}

/// Poll a future, converting a panic inside `poll` into `Err(message)`.
struct CatchUnwind<F> {
    inner: std::pin::Pin<Box<F>>,
}

impl<F: std::future::Future> std::future::Future for CatchUnwind<F> {
    type Output = Result<F::Output, String>;
    fn poll(
        mut self: std::pin::Pin<&mut Self>,
        cx: &mut std::task::Context<'_>,
    ) -> std::task::Poll<Self::Output> {
        let inner = &mut self.inner;
        match std::panic::catch_unwind(std::panic::AssertUnwindSafe(|| inner.as_mut().poll(cx))) {
            Ok(std::task::Poll::Ready(v)) => std::task::Poll::Ready(Ok(v)),
            Ok(std::task::Poll::Pending) => std::task::Poll::Pending,
            Err(p) => {
                let msg = p
                    .downcast_ref::<String>()
                    .cloned()
                    .or_else(|| p.downcast_ref::<&str>().map(|s| s.to_string()))
                    .unwrap_or_else(|| "panic".into());
                std::task::Poll::Ready(Err(msg))
            }
        }
    }
}

// ---------------------------------------------------------------------------
// Explorer
// ---------------------------------------------------------------------------

#[derive(Default)]
pub struct ExploreStats {
    pub executions: u64,
    pub exchanges: u64,
    pub choice_points: u64,
    pub faulted_executions: u64,
    pub capped: bool,
    /// default executions that were run a second time and compared
    pub replayed_twice: u64,
    /// default executions repeated under a formatting tracing subscriber
    pub traced_executions: u64,
    /// called with the choice prefix before every execution (trace mode)
    pub pre: Option<Box<dyn Fn(&[usize])>>,
}

/// Deviation-bounded exploration: every order alternative (cost 0), every
/// fault alternative (cost 1) while the total cost stays within `bound`.
/// `visit(result, choices)` is called for every complete execution.
/// Octets of log text rendered by the traced executions of this process
/// (evidence that the subscriber was live).
pub static LOG_OCTETS_RENDERED: std::sync::atomic::AtomicU64 = std::sync::atomic::AtomicU64::new(0);

pub struct CountingSink;
impl std::io::Write for CountingSink {
    fn write(&mut self, buf: &[u8]) -> std::io::Result<usize> {
        LOG_OCTETS_RENDERED.fetch_add(buf.len() as u64, std::sync::atomic::Ordering::Relaxed);
        Ok(buf.len())
    }
    fn flush(&mut self) -> std::io::Result<()> {
        Ok(())
    }
}

/// `run_once` under a subscriber that renders every log event (to a counting sink).
pub fn run_once_traced(spec: &RunSpec, prefix: &[usize]) -> RunResult {
    let subscriber = tracing_subscriber::fmt()
        .with_max_level(tracing::Level::TRACE)
        .with_writer(|| CountingSink)
        .finish();
    tracing::subscriber::with_default(subscriber, || run_once(spec, prefix))
}

thread_local! {
    static TRACE_TICK: std::cell::Cell<u64> = const { std::cell::Cell::new(0) };
}

/// For checks that call `run_once` themselves: every `every`-th execution of
/// the calling thread is run traced.
pub fn run_once_some_traced(spec: &RunSpec, prefix: &[usize], every: u64) -> RunResult {
    let n = TRACE_TICK.with(|t| {
        let v = t.get();
        t.set(v + 1);
        v
    });
    if n % every == 0 {
        run_once_traced(spec, prefix)
    } else {
        run_once(spec, prefix)
    }
}

pub fn explore<F: FnMut(&RunResult, &[usize])>(
    spec: &RunSpec,
    bound: usize,
    max_executions: u64,
    stats: &mut ExploreStats,
    visit: &mut F,
) {
    fn cost_of(points: &[Point], upto: usize) -> usize {
        points[..upto]
            .iter()
            .filter(|p| p.kind == PointKind::Fault && p.taken != 0)
            .count()
    }
    let mut stack: Vec<Vec<usize>> = vec![Vec::new()];
    while let Some(prefix) = stack.pop() {
        if stats.executions >= max_executions {
            stats.capped = true;
            return;
        }
        if let Some(pre) = &stats.pre {
            pre(&prefix);
        }
        let res = run_once(spec, &prefix);
        if let Some(d) = &res.divergence {
            crate::procpar::machinery_error(&format!("a recorded choice prefix did not replay: {d}"));
        }
        if prefix.is_empty() {
            // every source of nondeterminism must be owned: the default
            // execution of every exploration is run twice and must give the
            // same observation (answers, exchange log, choice points, cache)
            let again = run_once(spec, &prefix);
            let fp = |r: &RunResult| {
                format!(
                    "{:?}|{}|{:?}|{:?}",
                    // (records as a sorted multiset: HashMap iteration order inside
                    // the code under test may legitimately differ between runs)
                    r.asks
                        .iter()
                        .map(|a| match &a.outcome {
                            Outcome::Ok(rec) => format!(
                                "ok {:?} soa {:?}",
                                canon_rrs(&rec.clone().rrs()),
                                rec.soa_rr().map(show_rr)
                            ),
                            other => show_outcome(other).to_string(),
                        })
                        .collect::<Vec<_>>(),
                    show_log(&r.log),
                    r.points.iter().map(|p| (p.arity, p.taken)).collect::<Vec<_>>(),
                    r.asks.iter().map(|a| canon_rrs(&a.cache_after)).collect::<Vec<_>>()
                )
            };
            if fp(&res) != fp(&again) {
                crate::procpar::machinery_error(&format!(
                    "the same execution gave two different observations (nondeterminism not owned): {} vs {}",
                    fp(&res),
                    fp(&again)
                ));
            }
            stats.replayed_twice += 1;
            // ... and once more under a subscriber that renders every log event
            // and field (to nowhere), as a server at RUST_LOG=trace does: the
            // arguments of the resolver's log lines are code of the repository too,
            // and without a subscriber they are never evaluated.  The execution
            // is judged like any other (a panic while formatting is a panic).
            let traced = run_once_traced(spec, &prefix);
            if traced.divergence.is_none() {
                let choices: Vec<usize> = traced.points.iter().map(|p| p.taken).collect();
                visit(&traced, &choices);
                stats.traced_executions += 1;
                stats.executions += 1;
                stats.exchanges += traced.log.len() as u64;
                stats.choice_points += traced.points.len() as u64;
            }
        }
        stats.executions += 1;
        stats.exchanges += res.log.len() as u64;
        stats.choice_points += res.points.len() as u64;
        if res.points.iter().any(|p| p.kind == PointKind::Fault && p.taken != 0) {
            stats.faulted_executions += 1;
        }
        let choices: Vec<usize> = res.points.iter().map(|p| p.taken).collect();
        visit(&res, &choices);
        for i in (prefix.len()..res.points.len()).rev() {
            let p = &res.points[i];
            let base = cost_of(&res.points, i);
            for alt in 1..p.arity {
                let c = base + if p.kind == PointKind::Fault { 1 } else { 0 };
                if c > bound {
                    continue;
                }
                let mut next = choices[..i].to_vec();
                next.push(alt);
                stack.push(next);
            }
        }
    }
}

// ---------------------------------------------------------------------------
// Helpers for oracles and replay files
// ---------------------------------------------------------------------------

pub fn outcome_rrs(o: &Outcome) -> Vec<ResourceRecord> {
    match o {
        Outcome::Ok(r) => r.clone().rrs(),
        _ => Vec::new(),
    }
}

pub fn show_outcome(o: &Outcome) -> Value {
    match o {
        Outcome::Ok(ResolvedRecord::Authoritative { rrs, soa_rr }) => {
            json!({"Authoritative": {"rrs": rrs.iter().map(show_rr).collect::<Vec<_>>(), "soa": show_rr(soa_rr)}})
        }
        Outcome::Ok(ResolvedRecord::AuthoritativeNameError { soa_rr }) => {
            json!({"AuthoritativeNameError": {"soa": show_rr(soa_rr)}})
        }
        Outcome::Ok(ResolvedRecord::NonAuthoritative { rrs, soa_rr }) => {
            json!({"NonAuthoritative": {"rrs": rrs.iter().map(show_rr).collect::<Vec<_>>(), "soa": soa_rr.as_ref().map(show_rr)}})
        }
        Outcome::Ok(ResolvedRecord::Referral { ns_rrs }) => {
            json!({"Referral": {"ns_rrs": ns_rrs.iter().map(show_rr).collect::<Vec<_>>()}})
        }
        Outcome::Err(e) => json!({"Err": format!("{e}")}),
        Outcome::Panic(m) => json!({"Panic": m}),
    }
}

pub fn show_log(log: &[Exchange]) -> Value {
    json!(log
        .iter()
        .map(|e| format!(
            "#{} step{} t={}ms..{} {:?} {} {} fault={} honest={:?}",
            e.index,
            e.step,
            e.start_ns / 1_000_000,
            e.end_ns
                .map(|t| format!("{}ms", t / 1_000_000))
                .unwrap_or_else(|| "open".into()),
            e.proto,
            e.addr,
            e.question
                .as_ref()
                .map(|q| format!("{} {}", show_name(&q.name), q.qtype))
                .unwrap_or_else(|| "?".into()),
            show_fault(&e.fault),
            e.honest_kind
        ))
        .collect::<Vec<_>>())
}

pub fn nottl(r: &ResourceRecord) -> (DomainName, RecordTypeWithData) {
    (r.name.clone(), r.rtype_with_data.clone())
}
