//! C11 — a zone file means what RFC 1035 section 5 says it means.
//!
//! Bounded-exhaustive: the generator in `zonegen` owns a denotation and renders
//! it in every combination of the syntactic variants of a stated menu; every
//! file goes through the real `Zone::deserialise` and the observation (apex,
//! SOA, `all_records()`, `all_wildcard_records()`, as sorted dumps) is compared
//! with what the small interpreter in `zonegen::build` says the file means.
//! Files that break one rule of the statement must be rejected.

/// The zone-file generator shared with C13 and C17 lives in `zonegen.rs`; it
/// is declared here so that no change to `main.rs` is needed.
#[path = "zonegen.rs"]
pub mod zonegen;

use self::zonegen::*;
use crate::common::*;
use crate::util::*;
use dns_types::protocol::types::*;
use dns_types::zones::types::Zone;
use serde_json::{json, Value};
use std::collections::BTreeMap;

pub const SLUG_PAREN: &str = "paren-adjacent-token";
pub const SLUG_SOA_TTL: &str = "soa-ttl-inherits-minimum";
pub const SLUG_DIGIT: &str = "all-digit-owner";
pub const SLUG_IN_OWNER: &str = "class-mnemonic-owner";
pub const SLUG_ESC_DOT: &str = "escaped-dot-in-name";
pub const SLUG_ESC_AT: &str = "escaped-at-in-name";
pub const SLUG_MNEMONIC_RDATA: &str = "mnemonic-as-rdata-name";
pub const SLUG_HIGH_OCTET: &str = "high-octet-escape-in-name";

/// Each worker hands at most this many violations per clause to the sink
/// (the rest is only counted): formatting millions of them would dominate.
const PER_WORKER_AND_CLAUSE: u64 = 8;

#[derive(Debug, Clone, PartialEq, Eq)]
pub enum Obs {
    Ok(Dump),
    Err(String),
    Panic,
}

pub fn observe(text: &str) -> Obs {
    match std::panic::catch_unwind(|| Zone::deserialise(text)) {
        Ok(Ok(z)) => Obs::Ok(dump_zone(&z)),
        Ok(Err(e)) => Obs::Err(format!("{e:?}")),
        Err(_) => Obs::Panic,
    }
}

fn show_obs(o: &Obs) -> Value {
    match o {
        Obs::Ok(d) => json!({"ok": d.to_json()}),
        Obs::Err(e) => json!({"err": e}),
        Obs::Panic => json!("panic"),
    }
}

fn show_expect(e: &Expect) -> Value {
    match e {
        Expect::Ok(d) => json!({"ok": d.to_json()}),
        Expect::Err(k) => json!({"err": k}),
        Expect::Unjudged(k) => json!({"unjudged": k}),
    }
}

fn agrees(e: &Expect, o: &Obs) -> bool {
    match (e, o) {
        (Expect::Ok(a), Obs::Ok(b)) => a == b,
        (Expect::Err(_), Obs::Err(_)) => true,
        (Expect::Unjudged(_), Obs::Panic) => false,
        (Expect::Unjudged(_), _) => true,
        _ => false,
    }
}

fn short(text: &str) -> String {
    let mut s = String::new();
    for c in text.chars() {
        match c {
            '\n' => s.push_str("\\n"),
            '\t' => s.push_str("\\t"),
            c => s.push(c),
        }
    }
    s
}

fn first_difference(e: &Dump, o: &Dump) -> &'static str {
    if e.apex != o.apex {
        "apex"
    } else if e.soa != o.soa {
        "soa"
    } else if e.recs != o.recs {
        "records"
    } else {
        "wildcard-records"
    }
}

fn replay_json(space: &str, index: usize, text: &str, expect: &Expect) -> Value {
    json!({
        "kind": "zone-text",
        "space": space,
        "index": index,
        "text": text,
        "expect": show_expect(expect),
    })
}

#[derive(Default)]
struct Acc {
    cases: u64,
    skipped: u64,
    entries: u64,
    unjudged: u64,
    hist: BTreeMap<String, u64>,
    /// fnv64 of the text with the lowest bit replaced by "non-trivial"
    hashes: Vec<u64>,
    samples: Vec<Value>,
    /// violations seen by this worker, per clause (all of them; the sink only
    /// receives the first few per worker and clause)
    vcount: BTreeMap<String, u64>,
}

impl Acc {
    fn h(&mut self, k: &str) {
        *self.hist.entry(k.to_string()).or_insert(0) += 1;
    }
}

/// Judge one generated file.  Returns true if it was a violation.
fn judge(acc: &mut Acc, sink: &Sink, space: &'static str, index: usize, spec: &FileSpec, b: &Built) -> bool {
    acc.cases += 1;
    acc.entries += spec.entries.len() as u64;
    let m = &b.meta;
    let nontrivial = match &b.expect {
        Expect::Ok(_) => {
            m.omitted_owner
                || m.omitted_ttl
                || m.omitted_class
                || m.class_before_ttl
                || m.wildcard
                || m.relative
                || m.origin_change
                || m.escapes
                || m.quoted
                || m.uses_paren
                || m.clamp_applies
        }
        Expect::Err(_) => true,
        Expect::Unjudged(_) => false,
    };
    acc.hashes.push((fnv64(b.text.as_bytes()) & !1) | u64::from(nontrivial));
    match &b.expect {
        Expect::Ok(_) => {
            acc.h(&format!("{space}:expect-ok"));
            for (flag, name) in [
                (m.omitted_owner, "owner-omitted"),
                (m.omitted_ttl, "ttl-omitted"),
                (m.omitted_class, "class-omitted"),
                (m.class_before_ttl, "class-before-ttl"),
                (m.wildcard, "wildcard-owner"),
                (m.relative, "relative-or-@"),
                (m.origin_change, "origin-change"),
                (m.escapes, "escape"),
                (m.quoted, "quoted-string"),
                (m.comment, "comment"),
                (m.uses_paren, "parentheses"),
                (m.paren_touches_token, "parenthesis-touching-token"),
                (m.clamp_applies, "ttl-raised-to-minimum"),
                (m.ttl_through_soa, "ttl-inherited-through-soa"),
                (m.soa, "authoritative"),
                (m.digit_owner, "all-digit-owner"),
                (m.keyword_owner, "mnemonic-owner"),
            ] {
                if flag {
                    acc.h(&format!("feature:{name}"));
                }
            }
        }
        Expect::Err(k) => acc.h(&format!("{space}:expect-err:{k}")),
        Expect::Unjudged(k) => {
            acc.unjudged += 1;
            acc.h(&format!("{space}:unjudged:{k}"));
        }
    }
    let obs = observe(&b.text);
    if acc.samples.len() < 2 && acc.cases % 7919 == 1 {
        acc.samples.push(json!({"space": space, "text": b.text, "expected": show_expect(&b.expect)}));
    }
    if agrees(&b.expect, &obs) {
        return false;
    }
    let vcount = &mut acc.vcount;
    let mut push = |clause: String, slug: Option<&'static str>, why: &str| {
        let n = vcount.entry(format!("{clause}|{}", slug.unwrap_or(""))).or_insert(0);
        *n += 1;
        if *n > PER_WORKER_AND_CLAUSE {
            return;
        }
        sink.push(Violation {
            clause,
            summary: format!(
                "{} [{space}#{index}] {why}: expected {} but Zone::deserialise gave {}",
                short(&b.text),
                show_expect(&b.expect),
                show_obs(&obs)
            ),
            replay: replay_json(space, index, &b.text, &b.expect),
            slug,
        });
    };
    if obs == Obs::Panic {
        push("panic".into(), None, "panic");
        return true;
    }
    // --- attribution to an anticipated family (never changes the verdict) ---
    let hyps: [(Hyp, &str, Option<&'static str>, &str); 5] = [
        (
            Hyp { soa_ttl_is_minimum: true, ..Hyp::default() },
            "ttl-inherited-after-soa",
            Some(SLUG_SOA_TTL),
            "the TTL carried forward from the SOA is its MINIMUM instead of the TTL written on it",
        ),
        (
            Hyp { digit_owner_is_ttl: true, ..Hyp::default() },
            "all-digit-owner",
            Some(SLUG_DIGIT),
            "an owner made of digits followed by an omitted TTL is read as a TTL",
        ),
        (
            Hyp { in_owner_is_class: true, ..Hyp::default() },
            "owner-named-IN",
            Some(SLUG_IN_OWNER),
            "an owner written IN followed by an omitted class is read as the class",
        ),
        (
            Hyp { soa_ttl_is_minimum: true, digit_owner_is_ttl: true, ..Hyp::default() },
            "all-digit-owner+ttl-inherited-after-soa",
            None,
            "digits read as TTL and SOA TTL rewritten",
        ),
        (
            Hyp { soa_ttl_is_minimum: true, in_owner_is_class: true, ..Hyp::default() },
            "owner-named-IN+ttl-inherited-after-soa",
            None,
            "IN read as class and SOA TTL rewritten",
        ),
    ];
    let applicable = |h: &Hyp| -> bool {
        (!h.soa_ttl_is_minimum || m.ttl_through_soa) && (!h.digit_owner_is_ttl || m.digit_owner) && (!h.in_owner_is_class || m.keyword_owner)
    };
    // (1) parentheses touching a token: does the same file with blanks round
    //     every parenthesis load correctly -- or at least show nothing but one
    //     of the other anticipated readings?
    if m.paren_touches_token {
        let spaced = respaced(spec);
        if let Some(b2) = build(&spaced, Hyp::default()) {
            let obs2 = observe(&b2.text);
            let mut explained = b2.expect == b.expect && agrees(&b2.expect, &obs2);
            if !explained && obs2 != obs {
                for (h, _, slug, _) in &hyps {
                    if slug.is_none() || !applicable(h) {
                        continue;
                    }
                    if let Some(bh) = build(&spaced, *h) {
                        if bh.expect != b2.expect && !matches!(bh.expect, Expect::Unjudged(_)) && agrees(&bh.expect, &obs2) {
                            explained = true;
                            break;
                        }
                    }
                }
            }
            if explained {
                push(
                    "paren-adjacent-to-token".into(),
                    Some(SLUG_PAREN),
                    "a parenthesis written without a blank next to a token is not recognised (the same file with blanks round the parentheses is read as expected, or differs only by another anticipated reading)",
                );
                return true;
            }
        }
    }
    // (2)-(4) alternative readings
    for (h, clause, slug, why) in hyps {
        if !applicable(&h) {
            continue;
        }
        if let Some(bh) = build(spec, h) {
            if bh.expect != b.expect && !matches!(bh.expect, Expect::Unjudged(_)) && agrees(&bh.expect, &obs) {
                push(clause.into(), slug, why);
                return true;
            }
        }
    }
    // anything else
    let prefix = if space == "mnemonic-owners" { "mnemonic-owner:" } else { "" };
    let clause = match (&b.expect, &obs) {
        (Expect::Ok(_), Obs::Err(_)) => format!("{prefix}valid-file-rejected"),
        (Expect::Ok(e), Obs::Ok(o)) => format!("{prefix}{}", first_difference(e, o)),
        (Expect::Err(k), _) => format!("accepted:{k}"),
        _ => "other".to_string(),
    };
    if std::env::var_os("VERIF_C11_DEBUG").is_some() {
        eprintln!("DEBUG {clause} [{space}#{index}] {} => {}", short(&b.text), show_obs(&obs));
    }
    push(clause, None, "disagreement");
    true
}

// ---------------------------------------------------------------------------
// hand-written cases: corruptions, escapes in names, the RFC's own example
// ---------------------------------------------------------------------------

struct Manual {
    space: &'static str,
    text: String,
    expect: Expect,
    /// clause used when the case fails
    clause: String,
    /// (slug, reading that the defect would produce): the slug is attached only
    /// when the implementation's result equals that reading
    slug: Option<(&'static str, Expect)>,
}

fn dump(apex: &str, soa: Option<&str>, recs: &[&str], wild: &[&str]) -> Dump {
    let mut r: Vec<String> = recs.iter().map(|s| s.to_string()).collect();
    if let Some(s) = soa {
        let minimum = s.rsplit(' ').next().unwrap_or("0");
        r.push(format!("{apex} {minimum} {s}"));
    }
    r.sort();
    let mut w: Vec<String> = wild.iter().map(|s| s.to_string()).collect();
    w.sort();
    Dump {
        apex: apex.to_string(),
        soa: soa.map(String::from),
        recs: r,
        wild: w,
    }
}

/// Single-fault corruptions of valid base files.  Every one must be rejected.
fn corruptions(level: u8) -> Vec<Manual> {
    let mut out: Vec<Manual> = Vec::new();
    let mut add = |kind: &'static str, spec: &FileSpec, text_edit: Option<&dyn Fn(&str) -> Option<String>>| {
        if let Some(b) = build(spec, Hyp::default()) {
            let text = match text_edit {
                Some(f) => match f(&b.text) {
                    Some(t) => t,
                    None => return,
                },
                None => b.text.clone(),
            };
            out.push(Manual {
                space: "corruptions",
                text,
                expect: Expect::Err(kind),
                clause: format!("accepted:{kind}"),
                slug: None,
            });
        }
    };
    let tcs = [TtlClass::TtlIn, TtlClass::InTtl, TtlClass::Ttl];
    let paren = Layout {
        open: Some(OpenAt::AfterType),
        breaks: Breaks::All,
        open_left: false,
        open_right: false,
        close_left: false,
    };
    let layouts_used: Vec<Layout> = if level >= 2 { vec![FLAT, paren] } else { vec![FLAT] };
    for frame in [Frame::AuthSoaFirst, Frame::NonAuth] {
        let origin = frame.origin();
        for t in NON_SOA_TYPES {
            for rvar in rdata_variants(t, &origin, if level >= 2 { 1 } else { 0 }) {
                for tc in tcs {
                    for lay in &layouts_used {
                        let mut syn = RecSyn::plain(tc);
                        syn.layout = *lay;
                        let den = RecDen {
                            owner: OwnerSel::Name(child("www", &origin), false),
                            ttl: Some(300),
                            rvar: rvar.clone(),
                        };
                        let base = frame.wrap(vec![Entry::Rec(den.clone(), syn.clone())], 0);
                        // sanity: the base itself is a valid file
                        match build(&base, Hyp::default()) {
                            Some(Built { expect: Expect::Ok(_), .. }) => {}
                            _ => continue,
                        }
                        let last = base.entries.len() - 1;
                        // $INCLUDE at every position
                        for pos in 0..=base.entries.len() {
                            for inc in ["$INCLUDE other.zone\n", "$INCLUDE other.zone sub.ex. ; comment\n"] {
                                let mut s = base.clone();
                                s.entries.insert(pos, Entry::Raw(inc.to_string()));
                                add("include", &s, None);
                            }
                        }
                        // class other than IN
                        if tc.writes_class() {
                            for c in ["CH", "HS", "CLASS3", "CS"] {
                                let mut s = base.clone();
                                if let Entry::Rec(_, sy) = &mut s.entries[last] {
                                    sy.class_text = Some(c);
                                }
                                add("class-not-in", &s, None);
                            }
                        }
                        // unknown type mnemonic
                        for ty in ["FOO", "TYPE99", "AXFR"] {
                            let mut s = base.clone();
                            if let Entry::Rec(_, sy) = &mut s.entries[last] {
                                sy.type_text = Some(ty);
                            }
                            add("unknown-type", &s, None);
                        }
                        // SOA related
                        let soa_of = |owner: Name, wild: bool| -> Entry {
                            let rv = soa_rvar(&nm("ns1.ex."), &nm("admin.ex."), [2, 7200, 600, 3600000, 60]);
                            let mut sy = RecSyn::plain(TtlClass::TtlIn);
                            sy.owner_form = NameForm::Abs;
                            sy.name_form = NameForm::Abs;
                            Entry::Rec(
                                RecDen {
                                    owner: OwnerSel::Name(owner, wild),
                                    ttl: Some(3600),
                                    rvar: rv,
                                },
                                sy,
                            )
                        };
                        if frame.has_soa() {
                            for owner in [nm("ex."), nm("zone2.ex."), nm("other.")] {
                                for pos in [1usize, base.entries.len()] {
                                    let mut s = base.clone();
                                    s.entries.insert(pos, soa_of(owner.clone(), false));
                                    add("two-soa", &s, None);
                                }
                            }
                            // owner outside the apex
                            for o in [nm("www.other."), nm("x."), Vec::new(), nm("wwwex.")] {
                                let mut s = base.clone();
                                if let Entry::Rec(d, sy) = &mut s.entries[last] {
                                    d.owner = OwnerSel::Name(o.clone(), false);
                                    sy.owner_form = NameForm::Abs;
                                }
                                add("owner-outside-apex", &s, None);
                                let mut s = base.clone();
                                if let Entry::Rec(d, sy) = &mut s.entries[last] {
                                    d.owner = OwnerSel::Name(o, true);
                                    sy.owner_form = NameForm::Abs;
                                }
                                add("owner-outside-apex", &s, None);
                            }
                        } else {
                            for owner in [nm("ex."), Vec::new()] {
                                let mut s = base.clone();
                                s.entries.push(soa_of(owner, true));
                                add("wildcard-soa", &s, None);
                            }
                            // first record without owner / without TTL
                            let mut s = base.clone();
                            if let Entry::Rec(d, _) = &mut s.entries[last] {
                                d.owner = OwnerSel::Inherit;
                            }
                            add("no-owner-to-inherit", &s, None);
                            for tc2 in [TtlClass::In, TtlClass::Neither] {
                                let mut s = base.clone();
                                if let Entry::Rec(d, sy) = &mut s.entries[last] {
                                    d.ttl = None;
                                    sy.tc = tc2;
                                }
                                add("no-ttl-to-inherit", &s, None);
                            }
                        }
                        // no origin in force while relative names are used
                        {
                            let mut s = base.clone();
                            let mut hidden_any = false;
                            for e in s.entries.iter_mut() {
                                if let Entry::Origin { hidden, .. } = e {
                                    *hidden = true;
                                    hidden_any = true;
                                }
                            }
                            if hidden_any {
                                if let Some(Built { expect: Expect::Err("relative-name-without-origin"), .. }) =
                                    build(&s, Hyp::default())
                                {
                                    add("relative-name-without-origin", &s, None);
                                }
                            }
                        }
                        // TTL that is not a 32-bit number
                        for bad in ["4294967296", "-1", "1x", "3e2", "99999999999"] {
                            let good = " 300";
                            let f = |t: &str| -> Option<String> {
                                let p = t.rfind(good)?;
                                Some(format!("{} {bad}{}", &t[..p], &t[p + good.len()..]))
                            };
                            // only where "300" is the TTL (never part of the RDATA of these bases)
                            add("bad-ttl", &base, Some(&f));
                        }
                        // field-level faults
                        let k = rvar.fields.len();
                        for i in 0..k {
                            // missing field
                            let mut s = base.clone();
                            if let Entry::Rec(d, _) = &mut s.entries[last] {
                                d.rvar.fields.remove(i);
                            }
                            add("missing-rdata-field", &s, None);
                            // extra field (opaque types excluded: RFC 1035 allows several strings there)
                            if !OPAQUE_TYPES.contains(&t) {
                                let mut s = base.clone();
                                if let Entry::Rec(d, _) = &mut s.entries[last] {
                                    let f = d.rvar.fields[i].clone();
                                    d.rvar.fields.insert(i, f);
                                }
                                add("extra-rdata-field", &s, None);
                            }
                            // malformed number / address
                            let bad: Vec<&str> = match (&rvar.fields[i], t) {
                                (Field::Lit(_), RecordType::A) => {
                                    vec!["1.2.3", "1.2.3.256", "1.2.3.4.5", "a.b.c.d", "1.2.3.-4", "fd00::1"]
                                }
                                (Field::Lit(_), RecordType::AAAA) => {
                                    vec![":::1", "1::2::3", "g::1", "1.2.3.4", "1:2:3:4:5:6:7:8:9", "12345::"]
                                }
                                (Field::Lit(_), RecordType::MX) | (Field::Lit(_), RecordType::SRV) => {
                                    vec!["65536", "-1", "x", "1.5"]
                                }
                                _ => vec![],
                            };
                            for bv in bad {
                                let mut s = base.clone();
                                if let Entry::Rec(d, _) = &mut s.entries[last] {
                                    d.rvar.fields[i] = Field::Lit(bv.to_string());
                                }
                                add("malformed-rdata", &s, None);
                            }
                            // bad escapes inside a field
                            for bv in ["a\\25b", "a\\256", "\\2x", "\\999", "\\1\\2\\3"] {
                                let mut s = base.clone();
                                if let Entry::Rec(d, _) = &mut s.entries[last] {
                                    d.rvar.fields[i] = Field::Lit(bv.to_string());
                                }
                                add("bad-escape", &s, None);
                            }
                        }
                        // parentheses: stray `)`, nested `(`, unclosed `(` followed by another record
                        let stray = |t: &str| -> Option<String> {
                            let t = t.trim_end_matches('\n');
                            Some(format!("{t} )\n"))
                        };
                        if lay.open.is_none() {
                            add("unbalanced-parenthesis", &base, Some(&stray));
                            let nested = |t: &str| -> Option<String> {
                                // wrap the last line in two levels
                                let t = t.trim_end_matches('\n');
                                let p = t.rfind('\n').map(|p| p + 1).unwrap_or(0);
                                Some(format!("{}( ( {} ) )\n", &t[..p], &t[p..]))
                            };
                            add("nested-parenthesis", &base, Some(&nested));
                        } else {
                            let unclosed = |t: &str| -> Option<String> {
                                let t = t.trim_end_matches('\n');
                                let t = t.strip_suffix(')')?;
                                Some(format!("{t}\nother.ex. 300 IN A 10.9.9.9\n"))
                            };
                            add("unbalanced-parenthesis", &base, Some(&unclosed));
                            let nested = |t: &str| -> Option<String> { Some(t.replacen('(', "( (", 1)) };
                            add("nested-parenthesis", &base, Some(&nested));
                        }
                    }
                }
            }
        }
    }
    // SOA specific faults
    for tc in TTL_CLASS {
        let origin = nm("ex.");
        let mk = |fields_edit: &dyn Fn(&mut Vec<Field>)| -> FileSpec {
            let mut rv = soa_rvar(&nm("ns1.ex."), &nm("admin.ex."), [1, 7200, 600, 3600000, 60]);
            fields_edit(&mut rv.fields);
            FileSpec {
                entries: vec![
                    Entry::Origin { name: origin.clone(), relative: false, hidden: false },
                    Entry::Rec(
                        RecDen {
                            owner: OwnerSel::Name(origin.clone(), false),
                            ttl: if tc.writes_ttl() { Some(3600) } else { None },
                            rvar: rv,
                        },
                        RecSyn::plain(tc),
                    ),
                ],
                noise: 0,
            }
        };
        for i in 0..7 {
            add("missing-rdata-field", &mk(&|f: &mut Vec<Field>| {
                f.remove(i);
            }), None);
            add("extra-rdata-field", &mk(&|f: &mut Vec<Field>| {
                let x = f[i].clone();
                f.insert(i, x);
            }), None);
            if i >= 2 {
                for bad in ["4294967296", "-1", "1h", "x"] {
                    add("malformed-rdata", &mk(&|f: &mut Vec<Field>| {
                        f[i] = Field::Lit(bad.to_string());
                    }), None);
                }
            }
        }
        // a wildcard SOA, alone
        let mut s = mk(&|_f: &mut Vec<Field>| {});
        if let Entry::Rec(d, _) = &mut s.entries[1] {
            d.owner = OwnerSel::Name(origin.clone(), true);
        }
        add("wildcard-soa", &s, None);
        // a SOA as first record without owner
        let mut s = mk(&|_f: &mut Vec<Field>| {});
        if let Entry::Rec(d, _) = &mut s.entries[1] {
            d.owner = OwnerSel::Inherit;
        }
        add("no-owner-to-inherit", &s, None);
    }
    // `$ORIGIN` faults
    for t in [
        "$ORIGIN\nwww.ex. 300 IN A 10.0.0.1\n",
        "$ORIGIN ex. extra.\nwww.ex. 300 IN A 10.0.0.1\n",
        "$ORIGIN sub\nwww.ex. 300 IN A 10.0.0.1\n",
        "$ORIGIN @\nwww.ex. 300 IN A 10.0.0.1\n",
        "$ORIGIN ex..\nwww.ex. 300 IN A 10.0.0.1\n",
        "$INCLUDE\n",
    ] {
        out.push(Manual {
            space: "corruptions",
            text: t.to_string(),
            expect: Expect::Err("bad-directive"),
            clause: "accepted:bad-directive".into(),
            slug: None,
        });
    }
    out
}

fn ok(d: Dump) -> Expect {
    Expect::Ok(d)
}

/// Escapes that must switch off the special meaning of a character inside a
/// *name*, mnemonics used as relative names inside RDATA, and the example of
/// RFC 1035 section 5.3.
fn manual_cases() -> Vec<Manual> {
    let mut v = Vec::new();
    let a = "A 10.0.0.1";
    // --- `\.` and `\046`: a dot that is part of a label
    for (esc, _name) in [("\\.", "backslash-dot"), ("\\046", "decimal")] {
        v.push(Manual {
            space: "escapes-in-names",
            text: format!("$ORIGIN ex.\nx{esc}y 300 IN A 10.0.0.1\n"),
            expect: ok(dump(".", None, &[&format!("x\\.y.ex. 300 {a}")], &[])),
            clause: "escape-in-name".into(),
            slug: Some((SLUG_ESC_DOT, ok(dump(".", None, &[&format!("x.y.ex. 300 {a}")], &[])))),
        });
        v.push(Manual {
            space: "escapes-in-names",
            text: format!("x{esc}y.ex. 300 IN A 10.0.0.1\n"),
            expect: ok(dump(".", None, &[&format!("x\\.y.ex. 300 {a}")], &[])),
            clause: "escape-in-name".into(),
            slug: Some((SLUG_ESC_DOT, ok(dump(".", None, &[&format!("x.y.ex. 300 {a}")], &[])))),
        });
        v.push(Manual {
            space: "escapes-in-names",
            text: format!("$ORIGIN ex.\nwww 300 IN CNAME x{esc}y\n"),
            expect: ok(dump(".", None, &["www.ex. 300 CNAME x\\.y.ex."], &[])),
            clause: "escape-in-name".into(),
            slug: Some((SLUG_ESC_DOT, ok(dump(".", None, &["www.ex. 300 CNAME x.y.ex."], &[])))),
        });
        v.push(Manual {
            space: "escapes-in-names",
            text: format!("$ORIGIN ex.\n@ 3600 IN SOA ns1 admin{esc}contact 1 2 3 4 60\n"),
            expect: ok(dump("ex.", Some("SOA ns1.ex. admin\\.contact.ex. 1 2 3 4 60"), &[], &[])),
            clause: "escape-in-name".into(),
            slug: Some((
                SLUG_ESC_DOT,
                ok(dump("ex.", Some("SOA ns1.ex. admin.contact.ex. 1 2 3 4 60"), &[], &[])),
            )),
        });
    }
    // --- `\@` and `\064`: a label that is literally `@`
    for esc in ["\\@", "\\064"] {
        v.push(Manual {
            space: "escapes-in-names",
            text: format!("$ORIGIN ex.\n{esc} 300 IN A 10.0.0.1\n"),
            expect: ok(dump(".", None, &[&format!("@.ex. 300 {a}")], &[])),
            clause: "escape-in-name".into(),
            slug: Some((SLUG_ESC_AT, ok(dump(".", None, &[&format!("ex. 300 {a}")], &[])))),
        });
        v.push(Manual {
            space: "escapes-in-names",
            text: format!("$ORIGIN ex.\nwww 300 IN CNAME {esc}\n"),
            expect: ok(dump(".", None, &["www.ex. 300 CNAME @.ex."], &[])),
            clause: "escape-in-name".into(),
            slug: Some((SLUG_ESC_AT, ok(dump(".", None, &["www.ex. 300 CNAME ex."], &[])))),
        });
    }
    // escapes that are honoured inside names today (controls for the above)
    v.push(Manual {
        space: "escapes-in-names",
        text: "$ORIGIN ex.\nx\\;y\\(z\\)\\\"q\\\\\\ w 300 IN A 10.0.0.1\n".into(),
        expect: ok(dump(".", None, &[&format!("x;y(z)\"q\\\\\\032w.ex. 300 {a}")], &[])),
        clause: "escape-in-name".into(),
        slug: None,
    });
    v.push(Manual {
        space: "escapes-in-names",
        text: "@.ex. 300 IN A 10.0.0.1\n$ORIGIN ex.\n@.sub 300 IN A 10.0.0.1\n".into(),
        expect: ok(dump(".", None, &[&format!("@.ex. 300 {a}"), &format!("@.sub.ex. 300 {a}")], &[])),
        clause: "at-sign-inside-longer-name".into(),
        slug: None,
    });
    // --- an origin whose label holds an escaped octet: every relative name
    // after it (owner, wildcard owner, `@`, names inside RDATA) hangs off that
    // very origin
    for (esc, shown) in [
        ("my\\032printer", "my\\032printer"),
        ("my\\ printer", "my\\032printer"),
        ("tab\\009x", "tab\\009x"),
        ("semi\\;colon", "semi;colon"),
        ("par\\(en", "par(en"),
        ("quo\\\"te", "quo\"te"),
        ("back\\\\slash", "back\\\\slash"),
        ("hi\\200gh", "hi\\200gh"),
        ("del\\127x", "del\\127x"),
    ] {
        let high = esc.contains("200");
        v.push(Manual {
            space: "escapes-in-names",
            text: format!(
                "$ORIGIN {esc}.ex.\nhost 300 IN A 10.0.0.1\n@ 300 IN A 10.0.0.2\nwww 300 IN CNAME target\n*.dyn 300 IN A 10.0.0.3\n$ORIGIN sub\nleaf 300 IN MX 10 mail\n"
            ),
            expect: ok(dump(
                ".",
                None,
                &[
                    &format!("host.{shown}.ex. 300 {a}"),
                    &format!("{shown}.ex. 300 A 10.0.0.2"),
                    &format!("www.{shown}.ex. 300 CNAME target.{shown}.ex."),
                    &format!("leaf.sub.{shown}.ex. 300 MX 10 mail.sub.{shown}.ex."),
                ],
                &[&format!("dyn.{shown}.ex. 300 A 10.0.0.3")],
            )),
            clause: "escape-in-origin".into(),
            slug: if high { Some((SLUG_HIGH_OCTET, Expect::Err("rejected"))) } else { None },
        });
    }
    // --- `\DDD` for an octet above 127 inside a name (owner, relative owner, RDATA)
    for (text, recs) in [
        ("hi\\200gh.ex. 300 IN A 10.0.0.1\n", vec!["hi\\200gh.ex. 300 A 10.0.0.1"]),
        ("$ORIGIN ex.\nhi\\200gh 300 IN A 10.0.0.1\n", vec!["hi\\200gh.ex. 300 A 10.0.0.1"]),
        ("www.ex. 300 IN CNAME hi\\255gh.ex.\n", vec!["www.ex. 300 CNAME hi\\255gh.ex."]),
        ("\\128.ex. 300 IN A 10.0.0.1\n", vec!["\\128.ex. 300 A 10.0.0.1"]),
    ] {
        v.push(Manual {
            space: "escapes-in-names",
            text: text.to_string(),
            expect: ok(dump(".", None, &recs, &[])),
            clause: "escape-in-name".into(),
            slug: Some((SLUG_HIGH_OCTET, Expect::Err("rejected"))),
        });
    }
    // --- a relative name inside RDATA that spells a type mnemonic
    for tc in ["300 IN ", "IN 300 ", "300 ", ""] {
        let ttl_ok = !tc.is_empty();
        let text = if ttl_ok {
            format!("$ORIGIN ex.\nbox {tc}MINFO NS ns1\n")
        } else {
            format!("$ORIGIN ex.\nfirst 300 IN A 10.0.0.1\nbox MINFO NS ns1\n")
        };
        let mut recs = vec!["box.ex. 300 MINFO ns.ex. ns1.ex.".to_string()];
        if !ttl_ok {
            recs.push(format!("first.ex. 300 {a}"));
        }
        let refs: Vec<&str> = recs.iter().map(String::as_str).collect();
        v.push(Manual {
            space: "mnemonic-in-rdata",
            text,
            expect: ok(dump(".", None, &refs, &[])),
            clause: "mnemonic-as-rdata-name".into(),
            // the defect: `NS ns1` is taken for the record, the file is refused
            slug: Some((SLUG_MNEMONIC_RDATA, Expect::Err("rejected"))),
        });
    }
    for (rd, shown) in [
        ("MX 10 A", "MX 10 a.ex."),
        ("CNAME IN", "CNAME in.ex."),
        ("NS NS", "NS ns.ex."),
        ("TXT IN", "TXT \"IN\""),
        ("TXT A", "TXT \"A\""),
        ("SRV 1 2 3 SRV", "SRV 1 2 3 srv.ex."),
    ] {
        for head in ["www 300 IN ", "www IN 300 ", "www 300 "] {
            v.push(Manual {
                space: "mnemonic-in-rdata",
                text: format!("$ORIGIN ex.\n{head}{rd}\n"),
                expect: ok(dump(".", None, &[&format!("www.ex. 300 {shown}")], &[])),
                clause: "mnemonic-as-rdata-name".into(),
                slug: None,
            });
        }
    }
    // --- the example of RFC 1035 section 5.3 (loaded with origin ISI.EDU, the
    //     $INCLUDE line left out).  No TTL is written anywhere: every reading
    //     gives MINIMUM because the zone is authoritative.
    let rfc = "$ORIGIN ISI.EDU.\n@   IN  SOA     VENERA      Action\\.domains (\n                                 20     ; SERIAL\n                                 7200   ; REFRESH\n                                 600    ; RETRY\n                                 3600000; EXPIRE\n                                 60)    ; MINIMUM\n\n        NS      A.ISI.EDU.\n        NS      VENERA\n        NS      VAXA\n        MX      10      VENERA\n        MX      20      VAXA\n\nA       A       26.3.0.103\n\nVENERA  A       10.1.0.52\n        A       128.9.0.32\n\nVAXA    A       10.2.0.27\n        A       128.9.0.33\n";
    let rfc_recs = |rname: &str| -> Dump {
        let soa = format!("SOA venera.isi.edu. {rname} 20 7200 600 3600000 60");
        dump(
            "isi.edu.",
            Some(&soa),
            &[
                "isi.edu. 60 NS a.isi.edu.",
                "isi.edu. 60 NS venera.isi.edu.",
                "isi.edu. 60 NS vaxa.isi.edu.",
                "isi.edu. 60 MX 10 venera.isi.edu.",
                "isi.edu. 60 MX 20 vaxa.isi.edu.",
                "a.isi.edu. 60 A 26.3.0.103",
                "venera.isi.edu. 60 A 10.1.0.52",
                "venera.isi.edu. 60 A 128.9.0.32",
                "vaxa.isi.edu. 60 A 10.2.0.27",
                "vaxa.isi.edu. 60 A 128.9.0.33",
            ],
            &[],
        )
    };
    v.push(Manual {
        space: "rfc1035-example",
        text: rfc.to_string(),
        expect: ok(rfc_recs("action\\.domains.isi.edu.")),
        clause: "rfc1035-5.3-example".into(),
        slug: Some((SLUG_ESC_DOT, ok(rfc_recs("action.domains.isi.edu.")))),
    });
    // the same with the parenthesis spaced and no escaped dot
    v.push(Manual {
        space: "rfc1035-example",
        text: rfc.replace("60)", "60 )").replace("Action\\.domains", "Action-domains"),
        expect: ok(rfc_recs("action-domains.isi.edu.")),
        clause: "rfc1035-5.3-example-neutral".into(),
        slug: None,
    });
    // with only the dot neutralised: fails for the parenthesis alone
    v.push(Manual {
        space: "rfc1035-example",
        text: rfc.replace("Action\\.domains", "Action-domains"),
        expect: ok(rfc_recs("action-domains.isi.edu.")),
        clause: "paren-adjacent-to-token".into(),
        slug: Some((SLUG_PAREN, Expect::Err("any"))),
    });
    v
}

fn judge_manual(acc: &mut Acc, sink: &Sink, index: usize, m: &Manual) {
    acc.cases += 1;
    acc.entries += m.text.lines().count() as u64;
    acc.hashes.push(fnv64(m.text.as_bytes()) | 1);
    match &m.expect {
        Expect::Ok(_) => acc.h(&format!("{}:expect-ok", m.space)),
        Expect::Err(k) => acc.h(&format!("{}:expect-err:{k}", m.space)),
        Expect::Unjudged(k) => acc.h(&format!("{}:unjudged:{k}", m.space)),
    }
    let obs = observe(&m.text);
    if acc.samples.len() < 1 && index % 997 == 5 {
        acc.samples.push(json!({"space": m.space, "text": m.text, "expected": show_expect(&m.expect)}));
    }
    if agrees(&m.expect, &obs) {
        return;
    }
    let (clause, slug) = if obs == Obs::Panic {
        ("panic".to_string(), None)
    } else {
        match &m.slug {
            Some((s, reading)) if agrees(reading, &obs) => (m.clause.clone(), Some(*s)),
            _ => (m.clause.clone(), None),
        }
    };
    *acc.vcount.entry(format!("{clause}|{}", slug.unwrap_or(""))).or_insert(0) += 1;
    sink.push(Violation {
        clause,
        summary: format!(
            "{} [{}#{index}]: expected {} but Zone::deserialise gave {}",
            short(&m.text),
            m.space,
            show_expect(&m.expect),
            show_obs(&obs)
        ),
        replay: replay_json(m.space, index, &m.text, &m.expect),
        slug,
    });
}

// ---------------------------------------------------------------------------

struct SpaceRun<'a> {
    name: &'static str,
    count: usize,
    spec: Box<dyn Fn(usize) -> Option<FileSpec> + Sync + 'a>,
}

pub fn run(ctx: &Ctx) -> i32 {
    let level: u8 = ctx.tier.pick(1, 2);
    let sink = Sink::new(40);
    let mut report = Report::new();
    // wall-clock cap; VERIF_C11_CAP (seconds) overrides it for experiments
    let cap = std::env::var("VERIF_C11_CAP")
        .ok()
        .and_then(|s| s.parse::<f64>().ok())
        .unwrap_or(ctx.tier.pick(120.0, 1500.0));

    let singles = Singles::new(level);
    let pairs = Pairs::new(level);
    let triples = Triples::new(level);
    let soaforms = SoaForms::new(level);
    let digits = OddOwners::new(true);
    let mnemonics = OddOwners::new(false);
    let spaces: Vec<SpaceRun> = vec![
        SpaceRun { name: "digit-owners", count: digits.count(), spec: Box::new(|i| digits.spec(i)) },
        SpaceRun { name: "mnemonic-owners", count: mnemonics.count(), spec: Box::new(|i| mnemonics.spec(i)) },
        SpaceRun { name: "triples", count: triples.count(), spec: Box::new(|i| triples.spec(i)) },
        SpaceRun { name: "soa-forms", count: soaforms.count(), spec: Box::new(|i| soaforms.spec(i)) },
        SpaceRun { name: "singles", count: singles.count(), spec: Box::new(|i| singles.spec(i)) },
        SpaceRun { name: "pairs", count: pairs.count(), spec: Box::new(|i| pairs.spec(i)) },
    ];

    let mut total = Acc::default();
    let mut per_space: BTreeMap<String, Value> = BTreeMap::new();
    let mut exhaustive = true;
    let mut all_hashes: Vec<u64> = Vec::new();
    let merge = |total: &mut Acc, all_hashes: &mut Vec<u64>, parts: Vec<Acc>| -> (u64, u64) {
        let mut cases = 0;
        let mut skipped = 0;
        for p in parts {
            cases += p.cases;
            skipped += p.skipped;
            total.cases += p.cases;
            total.skipped += p.skipped;
            total.entries += p.entries;
            total.unjudged += p.unjudged;
            for (k, v) in p.hist {
                *total.hist.entry(k).or_insert(0) += v;
            }
            all_hashes.extend(p.hashes);
            for (k, v) in p.vcount {
                *total.vcount.entry(k).or_insert(0) += v;
            }
            for s in p.samples {
                if total.samples.len() < 6 {
                    total.samples.push(s);
                }
            }
        }
        (cases, skipped)
    };

    // hand-written cases first (cheap)
    {
        let mut list = corruptions(level);
        list.extend(manual_cases());
        let n = list.len();
        let parts = par_fold(n, ctx.threads, ctx.seed, Acc::default, |acc, i| {
            judge_manual(acc, &sink, i, &list[i]);
        });
        let (cases, _) = merge(&mut total, &mut all_hashes, parts);
        per_space.insert("corruptions+manual".into(), json!({"cases": cases}));
    }

    let only = std::env::var("VERIF_C11_SPACES").ok();
    for sp in &spaces {
        if let Some(o) = &only {
            // debugging aid: restrict the run to the named spaces (never exhaustive)
            if !o.split(',').any(|n| n == sp.name) {
                exhaustive = false;
                continue;
            }
        }
        if ctx.elapsed() > cap {
            exhaustive = false;
            per_space.insert(sp.name.into(), json!({"index_space": sp.count, "skipped_because_of_time_cap": true}));
            continue;
        }
        let stop = std::sync::atomic::AtomicBool::new(false);
        let parts = par_fold(sp.count, ctx.threads, ctx.seed, Acc::default, |acc, i| {
            if stop.load(std::sync::atomic::Ordering::Relaxed) {
                acc.skipped += 1;
                acc.h("cut-by-time-cap");
                return;
            }
            if i % 4096 == 0 && ctx.elapsed() > cap {
                stop.store(true, std::sync::atomic::Ordering::Relaxed);
            }
            match (sp.spec)(i).and_then(|s| build(&s, Hyp::default()).map(|b| (s, b))) {
                Some((s, b)) => {
                    judge(acc, &sink, sp.name, i, &s, &b);
                }
                None => acc.skipped += 1,
            }
        });
        if stop.load(std::sync::atomic::Ordering::Relaxed) {
            exhaustive = false;
        }
        let (cases, skipped) = merge(&mut total, &mut all_hashes, parts);
        per_space.insert(
            sp.name.into(),
            json!({"index_space": sp.count, "files": cases, "indices_not_denoting_a_separate_file": skipped, "done_at_s": ctx.elapsed()}),
        );
    }

    all_hashes.sort_unstable();
    all_hashes.dedup();
    let distinct = all_hashes.len() as u64;
    let distinct_nontrivial = all_hashes.iter().filter(|h| *h & 1 == 1).count() as u64;
    let cut = total.hist.remove("cut-by-time-cap").unwrap_or(0);

    report.evaluations = total.cases;
    report.states = distinct;
    report.transitions = total.entries;
    report.traces_validated = total.cases;
    report.distinct_nontrivial = distinct_nontrivial;
    report.rule = "every index of six mixed-radix spaces (single records: frame x type x RDATA variant x layout x owner x wildcard x owner form x TTL x TTL/class form x name form x escape style x blanks x comment x surrounding lines; ordered pairs: every form of record 1 x every form of record 2 x frame x $ORIGIN change x SOA in between; triples of the inheritance forms x SOA place/TTL; the SOA in every form; owners spelled like a TTL / a class / a type) plus hand-written corruptions and escape cases; indices whose choice would not change the text are skipped, distinct files are counted by a 63-bit hash of the text; a file is non-trivial when it is expected to load and uses at least one optional construct (omitted owner/TTL/class, class before TTL, wildcard, relative name or @, $ORIGIN change, escape, quoted string, parentheses, TTL below the SOA minimum; comments and blanks alone do not count) or when it is a corruption that must be rejected".into();
    report.samples = total.samples;
    report.bounds = json!({
        "level": level,
        "spaces": per_space,
        "types": "all 18 (17 as single records, SOA in soa-forms and every authoritative frame)",
        "pair_types": PAIR_TYPES.iter().take(if level >= 2 { 6 } else { 3 }).map(|t| t.to_string()).collect::<Vec<_>>(),
        "pair_forms_per_record": pairs.forms(),
        "indices_cut_by_time_cap": cut,
        "time_cap_s": cap,
    });
    report.exhaustive = exhaustive;
    report.outcome_histogram = total.hist;
    report.assumptions = vec![
        "TXT/HINFO/NULL/WKS RDATA is one opaque token (the implementation's model, DESIGN C11); several character-strings per record are not generated".into(),
        "a line that starts with a blank omits the owner, a line that starts in column 0 states it (RFC 1035 5.1); owners are never indented".into(),
        "a TTL omitted after a SOA that was itself written without TTL and had none to inherit is not judged (RFC 1035 leaves it open)".into(),
        "mnemonics are written in upper case, TTLs as plain decimal numbers".into(),
        "an unclosed parenthesis is only judged when another record follows it".into(),
    ];
    report.extra.insert("unjudged_cases".into(), json!(total.unjudged));
    report.extra.insert("violation_counts".into(), json!(total.vcount));
    report.violations = sink.take();
    // unanticipated families first: `finish` prints only the first dozen
    report.violations.sort_by_key(|v| v.slug.is_some());
    finish(ctx, report)
}

pub fn replay(ctx: &Ctx, v: &Value) -> i32 {
    let text = v["text"].as_str().unwrap_or("");
    let expect = &v["expect"];
    println!("zone file:\n{text}");
    let obs = observe(text);
    println!("implementation: {}", show_obs(&obs));
    println!("reference:      {expect}");
    let holds = if let Some(d) = expect.get("ok").and_then(Dump::from_json) {
        obs == Obs::Ok(d)
    } else if expect.get("err").is_some() {
        matches!(obs, Obs::Err(_))
    } else {
        obs != Obs::Panic
    };
    if holds {
        println!("replay: property holds on this case");
        0
    } else {
        println!("VIOLATION property={} replay=(replayed case)", ctx.id);
        1
    }
}

pub fn worker(_args: &[String]) -> i32 {
    2
}
