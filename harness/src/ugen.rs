//! Generator of consistent DNS universes (delegation chains from the root
//! hints) used by the E-NET checks.

use crate::net::Universe;
use crate::refzone::{FlatRec, FlatZone};
use crate::util::*;
use dns_types::protocol::types::*;
use dns_types::zones::types::SOA;
use std::collections::BTreeMap;
use std::net::{IpAddr, Ipv4Addr, Ipv6Addr};

#[derive(Debug, Copy, Clone, Eq, PartialEq)]
pub enum NsStyle {
    /// nameserver names inside the zone they serve, glue in the parent
    InZoneGlue,
    /// nameserver names in the parent zone
    InParent,
    /// nameserver names in the unrelated sibling zone `s.`, no glue
    Sibling,
    /// the zone is served by the sibling zone's *own* nameserver `ns1.s.`
    /// (one host, whatever `ns_count` says): looking its address up is
    /// answered by the root's referral for `s.`, whose glue is for the very
    /// name that was asked
    SiblingApexNs,
}

#[derive(Debug, Copy, Clone, Eq, PartialEq)]
pub enum Family {
    V4,
    V6,
    Dual,
    /// v6-only, and the address is IPv4-mapped (::ffff:a.b.c.d)
    V6Mapped,
    /// dual, and the v6 address is IPv4-mapped
    DualMapped,
    /// v4-only, two addresses per host (both serve)
    V4Two,
}

impl Family {
    pub fn has_v4(self) -> bool {
        matches!(self, Family::V4 | Family::Dual | Family::DualMapped | Family::V4Two)
    }
    pub fn has_v6(self) -> bool {
        !matches!(self, Family::V4 | Family::V4Two)
    }
    pub fn two(self) -> bool {
        matches!(self, Family::V4Two)
    }
    pub fn mapped(self) -> bool {
        matches!(self, Family::V6Mapped | Family::DualMapped)
    }
}

#[derive(Debug, Clone)]
pub struct GenParams {
    /// number of zones below the root on the chain (1..=5)
    pub depth: usize,
    /// style per level (index 0 = level 1)
    pub styles: Vec<NsStyle>,
    /// nameservers per level (1..=3)
    pub ns_count: Vec<usize>,
    pub send_additional: bool,
    pub chase_in_reply: bool,
    /// servers list AAAA before A in the additional section
    pub v6_glue_first: bool,
    /// referrals carry glue of one family only (4 / 6; 0 = both), although the hosts'
    /// own zones hold both: a parent with less glue than the child has addresses
    pub glue_family: u8,
    /// protocol mode of the resolver under test in the checks that do not enumerate
    /// the modes themselves (C07): 0 only-v4, 1 prefer-v4, 2 prefer-v6, 3 only-v6
    pub resolver_mode: u8,
    /// address family of the servers of each level (index 0 = root, then levels, last = sibling)
    pub families: Vec<Family>,
}

impl GenParams {
    pub fn simple(depth: usize, style: NsStyle, ns: usize) -> Self {
        GenParams {
            depth,
            styles: vec![style; depth],
            ns_count: vec![ns; depth],
            send_additional: true,
            chase_in_reply: false,
            v6_glue_first: false,
            glue_family: 0,
            resolver_mode: 0,
            families: vec![Family::V4; depth + 2],
        }
    }
    pub fn describe(&self) -> String {
        format!(
            "depth={} styles={:?} ns={:?} additional={} chase={} v6first={} families={:?}{}",
            self.depth, self.styles, self.ns_count, self.send_additional, self.chase_in_reply, self.v6_glue_first, self.families,
            format!("{}{}", ["", " resolver=prefer-v4", " resolver=prefer-v6", " resolver=only-v6"][(self.resolver_mode as usize).min(3)], match self.glue_family { 4 => " glue=A-only", 6 => " glue=AAAA-only", _ => "" })
        )
    }
}

const CHAIN_LABELS: [&str; 5] = ["t", "z", "y", "x", "w"];

pub fn level_apex(level: usize) -> DomainName {
    // level 0 = root
    let mut s = String::new();
    for i in (0..level).rev() {
        s.push_str(CHAIN_LABELS[i]);
        s.push('.');
    }
    if s.is_empty() {
        s.push('.');
    }
    dn(&s)
}

pub fn sibling_apex() -> DomainName {
    dn("s.")
}

fn v4(level: usize, k: usize) -> Ipv4Addr {
    Ipv4Addr::new(10, 0, level as u8, (k + 1) as u8)
}
fn v6(fam: Family, level: usize, k: usize) -> Ipv6Addr {
    if fam.mapped() {
        Ipv4Addr::new(10, 64, level as u8, (k + 1) as u8).to_ipv6_mapped()
    } else {
        Ipv6Addr::new(0xfd00, 0, 0, 0, 0, 0, level as u16, (k + 1) as u16)
    }
}

fn soa(apex: &DomainName, minimum: u32) -> SOA {
    SOA {
        mname: prepend(b"mname", apex),
        rname: prepend(b"hostmaster", apex),
        serial: 1,
        refresh: 2,
        retry: 3,
        expire: 4,
        minimum,
    }
}

fn rec(owner: &DomainName, data: RecordTypeWithData, ttl: u32) -> FlatRec {
    FlatRec {
        owner: owner.clone(),
        wildcard: false,
        data,
        ttl,
    }
}

pub const SIB_LEVEL: usize = 9;

/// Names of the nameserver hosts of the zone at `level` (1-based).
pub fn ns_hosts(p: &GenParams, level: usize) -> Vec<DomainName> {
    let apex = level_apex(level);
    let parent = level_apex(level - 1);
    let n = if p.styles[level - 1] == NsStyle::SiblingApexNs {
        1
    } else {
        p.ns_count[level - 1]
    };
    (0..n)
        .map(|k| match p.styles[level - 1] {
            NsStyle::SiblingApexNs => prepend(b"ns1", &sibling_apex()),
            NsStyle::InZoneGlue => prepend(format!("ns{}", k + 1).as_bytes(), &apex),
            NsStyle::InParent => prepend(
                format!("ns-{}{}", CHAIN_LABELS[level - 1], k + 1).as_bytes(),
                &parent,
            ),
            NsStyle::Sibling => prepend(
                format!("ns-{}{}", CHAIN_LABELS[level - 1], k + 1).as_bytes(),
                &sibling_apex(),
            ),
        })
        .collect()
}

fn addr_recs(owner: &DomainName, fam: Family, level: usize, k: usize, ttl: u32) -> Vec<FlatRec> {
    let mut v = Vec::new();
    if fam.has_v4() {
        v.push(rec(owner, RecordTypeWithData::A { address: v4(level, k) }, ttl));
    }
    if fam.two() {
        v.push(rec(owner, RecordTypeWithData::A { address: v4(level, k + 100) }, ttl));
    }
    if fam.has_v6() {
        v.push(rec(owner, RecordTypeWithData::AAAA { address: v6(fam, level, k) }, ttl));
    }
    v
}

fn addrs(fam: Family, level: usize, k: usize) -> Vec<IpAddr> {
    let mut v = Vec::new();
    if fam.has_v4() {
        v.push(IpAddr::V4(v4(level, k)));
    }
    if fam.two() {
        v.push(IpAddr::V4(v4(level, k + 100)));
    }
    if fam.has_v6() {
        v.push(IpAddr::V6(v6(fam, level, k)));
    }
    v
}

pub const TTL: u32 = 300;
pub const SHORT_TTL: u32 = 2;

pub fn build(p: &GenParams) -> Universe {
    let depth = p.depth;
    let fam = |i: usize| p.families.get(i).copied().unwrap_or(Family::V4);
    let sib_fam = p.families.last().copied().unwrap_or(Family::V4);
    let mut zones: Vec<FlatZone> = Vec::new();
    let mut serving: BTreeMap<IpAddr, Vec<usize>> = BTreeMap::new();

    // zone indices: 0 = root, 1..=depth = chain, depth+1 = sibling
    for level in 0..=depth {
        let apex = level_apex(level);
        zones.push(FlatZone {
            apex: apex.clone(),
            soa: Some(soa(&apex, 60)),
            recs: Vec::new(),
        });
    }
    let sib = sibling_apex();
    zones.push(FlatZone {
        apex: sib.clone(),
        soa: Some(soa(&sib, 60)),
        recs: Vec::new(),
    });
    let sib_idx = depth + 1;

    // root
    let root_ns = dn("a.root-servers.test.");
    zones[0].recs.push(rec(&DomainName::root_domain(), ns(&root_ns), TTL));
    for r in addr_recs(&root_ns, fam(0), 0, 0, TTL) {
        zones[0].recs.push(r);
    }
    for a in addrs(fam(0), 0, 0) {
        serving.entry(a).or_default().push(0);
    }

    // sibling zone `s.`: delegated from the root with in-zone glue
    let sib_ns = prepend(b"ns1", &sib);
    zones[0].recs.push(rec(&sib, ns(&sib_ns), TTL));
    zones[sib_idx].recs.push(rec(&sib, ns(&sib_ns), TTL));
    for r in addr_recs(&sib_ns, sib_fam, SIB_LEVEL, 0, TTL) {
        zones[0].recs.push(r.clone()); // glue
        zones[sib_idx].recs.push(r);
    }
    for a in addrs(sib_fam, SIB_LEVEL, 0) {
        serving.entry(a).or_default().push(sib_idx);
    }
    let www_s = prepend(b"www", &sib);
    zones[sib_idx].recs.push(rec(&www_s, a([10, 1, 9, 1]), SHORT_TTL));
    zones[sib_idx].recs.push(rec(&www_s, txt(b"sibling"), TTL));

    // chain
    for level in 1..=depth {
        let apex = level_apex(level);
        let hosts = ns_hosts(p, level);
        for (k, h) in hosts.iter().enumerate() {
            // delegation in the parent, NS set at the child's apex
            zones[level - 1].recs.push(rec(&apex, ns(h), TTL));
            zones[level].recs.push(rec(&apex, ns(h), TTL));
            let arecs = addr_recs(h, fam(level), level, k, TTL);
            match p.styles[level - 1] {
                NsStyle::InZoneGlue => {
                    for r in &arecs {
                        zones[level - 1].recs.push(r.clone()); // glue beneath the cut
                        zones[level].recs.push(r.clone());
                    }
                }
                NsStyle::InParent => {
                    for r in &arecs {
                        zones[level - 1].recs.push(r.clone());
                    }
                }
                NsStyle::Sibling => {
                    for r in &arecs {
                        zones[sib_idx].recs.push(r.clone());
                    }
                }
                NsStyle::SiblingApexNs => {
                    // the host and its addresses already exist (sibling zone + root glue)
                }
            }
            if p.styles[level - 1] == NsStyle::SiblingApexNs {
                for a in addrs(sib_fam, SIB_LEVEL, 0) {
                    serving.entry(a).or_default().push(level);
                }
            } else {
                for a in addrs(fam(level), level, k) {
                    serving.entry(a).or_default().push(level);
                }
            }
        }
        // some data in every zone
        let www = prepend(b"www", &apex);
        zones[level].recs.push(rec(&www, a([10, 1, level as u8, 1]), TTL));
        if level == depth {
            let l = &apex;
            zones[level].recs.push(rec(&www, a([10, 1, level as u8, 2]), TTL));
            zones[level].recs.push(rec(&www, txt(b"hello"), TTL));
            zones[level].recs.push(rec(&prepend(b"alias", l), cname(&www), TTL));
            zones[level].recs.push(rec(&prepend(b"ext", l), cname(&www_s), TTL));
            zones[level]
                .recs
                .push(rec(&prepend(b"chain", l), cname(&prepend(b"ext", l)), SHORT_TTL));
            zones[level]
                .recs
                .push(rec(&prepend(b"dangling", l), cname(&prepend(b"missing", l)), TTL));
            let b = prepend(b"b", l);
            zones[level].recs.push(rec(&prepend(b"a", &b), a([10, 1, level as u8, 3]), TTL));
            zones[level].recs.push(rec(l, mx(10, &www), TTL));
            zones[level].recs.push(FlatRec {
                owner: prepend(b"wild", l),
                wildcard: true,
                data: a([10, 1, level as u8, 4]),
                ttl: TTL,
            });
        }
    }

    Universe {
        zones,
        serving,
        hints: vec![(root_ns, addrs(fam(0), 0, 0))],
        send_additional: p.send_additional,
        chase_in_reply: p.chase_in_reply,
        v6_glue_first: p.v6_glue_first,
        glue_family: p.glue_family,
        description: p.describe(),
        forwarder: Some(IpAddr::V4(Ipv4Addr::new(10, 9, 9, 9))),
        silent: Default::default(),
    }
}

/// Questions about the leaf zone of the chain, nameserver hosts and apexes.
pub fn questions(p: &GenParams) -> Vec<Question> {
    let leaf = level_apex(p.depth);
    let mut qs = Vec::new();
    let name_types: Vec<(DomainName, Vec<RecordType>)> = vec![
        (prepend(b"www", &leaf), vec![RecordType::A, RecordType::AAAA, RecordType::TXT, RecordType::MX]),
        (prepend(b"alias", &leaf), vec![RecordType::A, RecordType::TXT, RecordType::AAAA]),
        (prepend(b"ext", &leaf), vec![RecordType::A, RecordType::TXT, RecordType::MX]),
        (prepend(b"chain", &leaf), vec![RecordType::A, RecordType::AAAA]),
        (prepend(b"dangling", &leaf), vec![RecordType::A]),
        (prepend(b"missing", &leaf), vec![RecordType::A, RecordType::TXT]),
        (prepend(b"b", &leaf), vec![RecordType::A]),
        (prepend(b"a", &prepend(b"b", &leaf)), vec![RecordType::A]),
        (prepend(b"x", &prepend(b"www", &leaf)), vec![RecordType::A]),
        (prepend(b"q", &prepend(b"wild", &leaf)), vec![RecordType::A, RecordType::TXT]),
        (leaf.clone(), vec![RecordType::MX, RecordType::NS, RecordType::SOA, RecordType::A]),
    ];
    for (n, ts) in name_types {
        for t in ts {
            qs.push(question(&n, qt(t)));
        }
    }
    // nameserver hosts of the leaf level (glue short-cut)
    for h in ns_hosts(p, p.depth) {
        qs.push(question(&h, qt(RecordType::A)));
        qs.push(question(&h, qt(RecordType::AAAA)));
    }
    if p.depth >= 2 {
        let mid = level_apex(p.depth - 1);
        qs.push(question(&mid, qt(RecordType::NS)));
        qs.push(question(&prepend(b"www", &mid), qt(RecordType::A)));
    }
    qs
}

/// A universe in which `t.` is delegated to `n` nameservers named in the
/// zone `dead.`, whose only server never answers: every attempt to find a
/// nameserver address costs 10 s of virtual time.
pub fn dead_universe(n: usize) -> (Universe, Question) {
    let mut p = GenParams::simple(1, NsStyle::InZoneGlue, 1);
    p.send_additional = true;
    let mut u = build(&p);
    let t = level_apex(1);
    let dead = dn("dead.");
    let dead_ns = prepend(b"ns1", &dead);
    let dead_addr = Ipv4Addr::new(10, 0, 66, 1);
    // replace the delegation of t. in the root zone
    u.zones[0].recs.retain(|r| !(r.owner == t && r.data.rtype() == RecordType::NS) && !r.owner.is_subdomain_of(&t));
    for k in 0..n {
        let h = prepend(format!("h{k}").as_bytes(), &dead);
        u.zones[0].recs.push(rec(&t, ns(&h), TTL));
    }
    u.zones[0].recs.push(rec(&dead, ns(&dead_ns), TTL));
    u.zones[0].recs.push(rec(&dead_ns, RecordTypeWithData::A { address: dead_addr }, TTL));
    u.silent.insert(IpAddr::V4(dead_addr));
    u.description = format!("t. delegated to {n} glueless nameservers in dead., whose server is silent");
    (u, question(&prepend(b"www", &t), qt(RecordType::A)))
}
