//! zonegen — generator of zone files whose meaning is known by construction.
//!
//! Shared by C11 (meaning of a zone file), C13 (round trip) and C17 (base
//! corpus for edits).  The generator owns a *denotation* (ordered records:
//! owner incl. wildcard flag, TTL, type, RDATA; `$ORIGIN` changes; an optional
//! SOA) and a *syntax choice* per record; `build` renders the text and, with a
//! small interpreter of RFC 1035 section 5 written over the structured
//! entries (never over the text, never by calling the implementation),
//! computes what the file must mean.

use crate::util::*;
use dns_types::protocol::types::*;
use dns_types::zones::types::Zone;
use serde_json::{json, Value};
use std::net::{Ipv4Addr, Ipv6Addr};

/// Absolute name: labels leftmost first, without the root label.
pub type Name = Vec<Vec<u8>>;

pub fn nm(s: &str) -> Name {
    if s == "." || s.is_empty() {
        return Vec::new();
    }
    s.trim_end_matches('.')
        .split('.')
        .map(|l| l.as_bytes().to_vec())
        .collect()
}

pub fn child(label: &str, of: &Name) -> Name {
    let mut v = vec![label.as_bytes().to_vec()];
    v.extend(of.iter().cloned());
    v
}

pub fn under(name: &Name, origin: &Name) -> bool {
    name.len() >= origin.len()
        && name[name.len() - origin.len()..]
            .iter()
            .zip(origin.iter())
            .all(|(a, b)| a.eq_ignore_ascii_case(b))
}

pub fn to_domain(n: &Name) -> DomainName {
    let refs: Vec<&[u8]> = n.iter().map(|l| l.as_slice()).collect();
    name_of(&refs)
}

// ---------------------------------------------------------------------------
// denotation of RDATA
// ---------------------------------------------------------------------------

#[derive(Debug, Clone, PartialEq)]
pub enum RData {
    A([u8; 4]),
    Aaaa([u16; 8]),
    /// NS MD MF CNAME MB MG MR PTR
    Single(RecordType, Name),
    Minfo(Name, Name),
    Mx(u16, Name),
    Srv(u16, u16, u16, Name),
    Soa {
        mname: Name,
        rname: Name,
        serial: u32,
        refresh: u32,
        retry: u32,
        expire: u32,
        minimum: u32,
    },
    /// TXT HINFO NULL WKS: one opaque octet string (the implementation's model)
    Opaque(RecordType, Vec<u8>),
}

impl RData {
    pub fn rtype(&self) -> RecordType {
        match self {
            RData::A(_) => RecordType::A,
            RData::Aaaa(_) => RecordType::AAAA,
            RData::Single(t, _) => *t,
            RData::Minfo(..) => RecordType::MINFO,
            RData::Mx(..) => RecordType::MX,
            RData::Srv(..) => RecordType::SRV,
            RData::Soa { .. } => RecordType::SOA,
            RData::Opaque(t, _) => *t,
        }
    }

    pub fn to_rtwd(&self) -> RecordTypeWithData {
        use bytes::Bytes;
        match self {
            RData::A(a) => RecordTypeWithData::A {
                address: Ipv4Addr::from(*a),
            },
            RData::Aaaa(s) => RecordTypeWithData::AAAA {
                address: Ipv6Addr::new(s[0], s[1], s[2], s[3], s[4], s[5], s[6], s[7]),
            },
            RData::Single(t, n) => {
                let d = to_domain(n);
                match t {
                    RecordType::NS => RecordTypeWithData::NS { nsdname: d },
                    RecordType::MD => RecordTypeWithData::MD { madname: d },
                    RecordType::MF => RecordTypeWithData::MF { madname: d },
                    RecordType::CNAME => RecordTypeWithData::CNAME { cname: d },
                    RecordType::MB => RecordTypeWithData::MB { madname: d },
                    RecordType::MG => RecordTypeWithData::MG { mdmname: d },
                    RecordType::MR => RecordTypeWithData::MR { newname: d },
                    RecordType::PTR => RecordTypeWithData::PTR { ptrdname: d },
                    other => panic!("harness: {other} is not a single-name type"),
                }
            }
            RData::Minfo(r, e) => RecordTypeWithData::MINFO {
                rmailbx: to_domain(r),
                emailbx: to_domain(e),
            },
            RData::Mx(p, e) => RecordTypeWithData::MX {
                preference: *p,
                exchange: to_domain(e),
            },
            RData::Srv(p, w, port, t) => RecordTypeWithData::SRV {
                priority: *p,
                weight: *w,
                port: *port,
                target: to_domain(t),
            },
            RData::Soa {
                mname,
                rname,
                serial,
                refresh,
                retry,
                expire,
                minimum,
            } => RecordTypeWithData::SOA {
                mname: to_domain(mname),
                rname: to_domain(rname),
                serial: *serial,
                refresh: *refresh,
                retry: *retry,
                expire: *expire,
                minimum: *minimum,
            },
            RData::Opaque(t, o) => {
                let octets = Bytes::copy_from_slice(o);
                match t {
                    RecordType::TXT => RecordTypeWithData::TXT { octets },
                    RecordType::HINFO => RecordTypeWithData::HINFO { octets },
                    RecordType::NULL => RecordTypeWithData::NULL { octets },
                    RecordType::WKS => RecordTypeWithData::WKS { octets },
                    other => panic!("harness: {other} is not an opaque type"),
                }
            }
        }
    }
}

// ---------------------------------------------------------------------------
// syntax of one RDATA: a list of fields
// ---------------------------------------------------------------------------

#[derive(Debug, Copy, Clone, PartialEq, Eq)]
pub enum OpForm {
    /// unquoted; specials `\X`, blanks `\ `, non-printing `\DDD`
    Bare,
    /// quoted; `"` and `\` as `\X`, blanks and `; ( )` raw, non-printing `\DDD`
    Quoted,
    /// unquoted, every octet as `\DDD`
    AllDdd,
    /// quoted, every printing non-digit octet as `\X`, others `\DDD`
    QuotedAllX,
    /// quoted, LF written as a raw line break (pinned by the unit test
    /// `tokenise_entry_multiline_string`)
    QuotedRawLf,
}

#[derive(Debug, Clone, PartialEq)]
pub enum Field {
    Lit(String),
    Name(Name),
    Opaque(Vec<u8>, OpForm),
}

#[derive(Debug, Clone, PartialEq)]
pub struct RVar {
    pub data: RData,
    pub fields: Vec<Field>,
}

pub fn render_opaque(content: &[u8], form: OpForm) -> Option<String> {
    let mut s = String::new();
    match form {
        OpForm::Bare => {
            if content.is_empty() {
                return None;
            }
            for &b in content {
                match b {
                    b'"' | b'\\' | b';' | b'(' | b')' | b' ' => {
                        s.push('\\');
                        s.push(b as char);
                    }
                    33..=126 => s.push(b as char),
                    _ => s.push_str(&format!("\\{b:03}")),
                }
            }
        }
        OpForm::Quoted | OpForm::QuotedRawLf => {
            if form == OpForm::QuotedRawLf && !content.contains(&b'\n') {
                return None;
            }
            s.push('"');
            for &b in content {
                match b {
                    b'"' | b'\\' => {
                        s.push('\\');
                        s.push(b as char);
                    }
                    b'\n' if form == OpForm::QuotedRawLf => s.push('\n'),
                    32..=126 => s.push(b as char),
                    _ => s.push_str(&format!("\\{b:03}")),
                }
            }
            s.push('"');
        }
        OpForm::AllDdd => {
            if content.is_empty() {
                return None;
            }
            for &b in content {
                s.push_str(&format!("\\{b:03}"));
            }
        }
        OpForm::QuotedAllX => {
            s.push('"');
            for &b in content {
                if (32..=126).contains(&b) && !b.is_ascii_digit() {
                    s.push('\\');
                    s.push(b as char);
                } else {
                    s.push_str(&format!("\\{b:03}"));
                }
            }
            s.push('"');
        }
    }
    Some(s)
}

pub const OPAQUE_TYPES: [RecordType; 4] = [
    RecordType::TXT,
    RecordType::HINFO,
    RecordType::NULL,
    RecordType::WKS,
];

pub const SINGLE_NAME_TYPES: [RecordType; 8] = [
    RecordType::NS,
    RecordType::MD,
    RecordType::MF,
    RecordType::CNAME,
    RecordType::MB,
    RecordType::MG,
    RecordType::MR,
    RecordType::PTR,
];

/// The 17 supported non-SOA types.
pub const NON_SOA_TYPES: [RecordType; 17] = [
    RecordType::A,
    RecordType::NS,
    RecordType::MD,
    RecordType::MF,
    RecordType::CNAME,
    RecordType::MB,
    RecordType::MG,
    RecordType::MR,
    RecordType::NULL,
    RecordType::WKS,
    RecordType::PTR,
    RecordType::HINFO,
    RecordType::MINFO,
    RecordType::MX,
    RecordType::TXT,
    RecordType::AAAA,
    RecordType::SRV,
];

const OPAQUE_CONTENTS: [&[u8]; 9] = [
    b"abc",
    b"hello world",
    b"a;b(c)d\"e\\f",
    &[0, 255, 128, 127, 31, b'x'],
    b"",
    b"IN",
    b"300",
    b"line1\nline2",
    b"@",
];
const OPAQUE_FORMS: [OpForm; 5] = [
    OpForm::Bare,
    OpForm::Quoted,
    OpForm::AllDdd,
    OpForm::QuotedAllX,
    OpForm::QuotedRawLf,
];

/// RDATA variants of a type.  `base` is the name the RDATA names hang under
/// (normally the origin in force).  level 0: one canonical variant; 1: quick
/// selection; 2: everything.
pub fn rdata_variants(rtype: RecordType, base: &Name, level: u8) -> Vec<RVar> {
    let under_n = child("ns1", base);
    let deep_n = child("a", &child("b", base));
    let outside = nm("host.other.");
    let root: Name = Vec::new();
    let lit = |s: &str| Field::Lit(s.to_string());
    let mut out = Vec::new();
    let targets: Vec<Name> = match level {
        0 => vec![under_n.clone()],
        1 => vec![under_n.clone(), base.clone(), outside.clone()],
        _ => vec![
            under_n.clone(),
            base.clone(),
            outside.clone(),
            root.clone(),
            deep_n.clone(),
        ],
    };
    match rtype {
        RecordType::A => {
            let all: [([u8; 4], &str); 3] = [
                ([10, 0, 0, 1], "10.0.0.1"),
                ([255, 255, 255, 255], "255.255.255.255"),
                ([0, 0, 0, 0], "0.0.0.0"),
            ];
            let n = match level {
                0 | 1 => 1,
                _ => 3,
            };
            for (a, s) in all.iter().take(n) {
                out.push(RVar {
                    data: RData::A(*a),
                    fields: vec![lit(s)],
                });
            }
        }
        RecordType::AAAA => {
            let all: [([u16; 8], &str); 6] = [
                ([0xfd00, 0, 0, 0, 0, 0, 0, 1], "fd00::1"),
                ([0x2001, 0xdb8, 0, 0, 0, 0, 0, 1], "2001:db8:0:0:0:0:0:1"),
                ([0xfd00, 0, 0, 0, 0, 0, 0, 0xa], "FD00::A"),
                ([0, 0, 0, 0, 0, 0xffff, 0x0102, 0x0304], "::ffff:1.2.3.4"),
                ([0, 0, 0, 0, 0, 0, 0, 0], "::"),
                ([0, 0, 0, 0, 0, 0, 0, 1], "::1"),
            ];
            let n = match level {
                0 => 1,
                1 => 3,
                _ => 6,
            };
            for (a, s) in all.iter().take(n) {
                out.push(RVar {
                    data: RData::Aaaa(*a),
                    fields: vec![lit(s)],
                });
            }
        }
        t if SINGLE_NAME_TYPES.contains(&t) => {
            for n in &targets {
                out.push(RVar {
                    data: RData::Single(t, n.clone()),
                    fields: vec![Field::Name(n.clone())],
                });
            }
        }
        RecordType::MINFO => {
            let pairs: Vec<(Name, Name)> = match level {
                0 => vec![(under_n.clone(), base.clone())],
                1 => vec![(under_n.clone(), base.clone()), (outside.clone(), root.clone())],
                _ => vec![
                    (under_n.clone(), base.clone()),
                    (outside.clone(), root.clone()),
                    (base.clone(), deep_n.clone()),
                    (root.clone(), under_n.clone()),
                ],
            };
            for (r, e) in pairs {
                out.push(RVar {
                    data: RData::Minfo(r.clone(), e.clone()),
                    fields: vec![Field::Name(r), Field::Name(e)],
                });
            }
        }
        RecordType::MX => {
            let all: Vec<(u16, Name)> = vec![
                (10, under_n.clone()),
                (0, root.clone()),
                (65535, outside.clone()),
                (1, base.clone()),
            ];
            let n = match level {
                0 => 1,
                1 => 2,
                _ => 4,
            };
            for (p, e) in all.into_iter().take(n) {
                out.push(RVar {
                    data: RData::Mx(p, e.clone()),
                    fields: vec![lit(&p.to_string()), Field::Name(e)],
                });
            }
        }
        RecordType::SRV => {
            let all: Vec<(u16, u16, u16, Name)> = vec![
                (0, 5, 8080, under_n.clone()),
                (65535, 65535, 65535, outside.clone()),
                (1, 2, 3, base.clone()),
                (0, 0, 0, root.clone()),
            ];
            let n = match level {
                0 => 1,
                1 => 2,
                _ => 4,
            };
            for (p, w, port, t) in all.into_iter().take(n) {
                out.push(RVar {
                    data: RData::Srv(p, w, port, t.clone()),
                    fields: vec![
                        lit(&p.to_string()),
                        lit(&w.to_string()),
                        lit(&port.to_string()),
                        Field::Name(t),
                    ],
                });
            }
        }
        RecordType::SOA => {
            let all: Vec<(Name, Name, [u32; 5])> = vec![
                (under_n.clone(), child("admin", base), [1, 7200, 600, 3600000, 60]),
                (outside.clone(), base.clone(), [4294967295, 0, 1, 2, 0]),
                (root.clone(), deep_n.clone(), [20, 7200, 600, 3600000, 4294967295]),
            ];
            let n = match level {
                0 => 1,
                1 => 2,
                _ => 3,
            };
            for (m, r, v) in all.into_iter().take(n) {
                out.push(soa_rvar(&m, &r, v));
            }
        }
        t if OPAQUE_TYPES.contains(&t) => {
            let (nc, forms): (usize, &[OpForm]) = match level {
                0 => (1, &OPAQUE_FORMS[1..2]),
                1 => (4, &OPAQUE_FORMS[0..4]),
                _ => (OPAQUE_CONTENTS.len(), &OPAQUE_FORMS[..]),
            };
            for c in OPAQUE_CONTENTS.iter().take(nc) {
                for f in forms {
                    if render_opaque(c, *f).is_some() {
                        out.push(RVar {
                            data: RData::Opaque(t, c.to_vec()),
                            fields: vec![Field::Opaque(c.to_vec(), *f)],
                        });
                    }
                }
            }
            if level == 1 {
                // the empty string and the raw line break once each
                out.push(RVar {
                    data: RData::Opaque(t, Vec::new()),
                    fields: vec![Field::Opaque(Vec::new(), OpForm::Quoted)],
                });
                out.push(RVar {
                    data: RData::Opaque(t, b"line1\nline2".to_vec()),
                    fields: vec![Field::Opaque(b"line1\nline2".to_vec(), OpForm::QuotedRawLf)],
                });
            }
        }
        other => panic!("harness: no rdata variants for {other}"),
    }
    out
}

pub fn soa_rvar(mname: &Name, rname: &Name, v: [u32; 5]) -> RVar {
    RVar {
        data: RData::Soa {
            mname: mname.clone(),
            rname: rname.clone(),
            serial: v[0],
            refresh: v[1],
            retry: v[2],
            expire: v[3],
            minimum: v[4],
        },
        fields: vec![
            Field::Name(mname.clone()),
            Field::Name(rname.clone()),
            Field::Lit(v[0].to_string()),
            Field::Lit(v[1].to_string()),
            Field::Lit(v[2].to_string()),
            Field::Lit(v[3].to_string()),
            Field::Lit(v[4].to_string()),
        ],
    }
}

// ---------------------------------------------------------------------------
// syntax choices of one record
// ---------------------------------------------------------------------------

#[derive(Debug, Copy, Clone, PartialEq, Eq)]
pub enum NameForm {
    Abs,
    /// relative to the origin in force where possible (`@` for the origin
    /// itself), absolute otherwise
    Rel,
}

#[derive(Debug, Copy, Clone, PartialEq, Eq)]
pub enum NameEsc {
    Plain,
    /// first octet of every label written `\X`
    EscX,
    /// first octet of every label written `\DDD`
    EscDdd,
    /// letters in upper case (names compare case-insensitively)
    Upper,
}
pub const NAME_ESCS: [NameEsc; 4] = [NameEsc::Plain, NameEsc::EscX, NameEsc::EscDdd, NameEsc::Upper];

#[derive(Debug, Copy, Clone, PartialEq, Eq)]
pub enum TtlClass {
    TtlIn,
    InTtl,
    Ttl,
    In,
    Neither,
}
pub const TTL_CLASS: [TtlClass; 5] = [
    TtlClass::TtlIn,
    TtlClass::InTtl,
    TtlClass::Ttl,
    TtlClass::In,
    TtlClass::Neither,
];
impl TtlClass {
    pub fn writes_ttl(self) -> bool {
        matches!(self, TtlClass::TtlIn | TtlClass::InTtl | TtlClass::Ttl)
    }
    pub fn writes_class(self) -> bool {
        matches!(self, TtlClass::TtlIn | TtlClass::InTtl | TtlClass::In)
    }
}

#[derive(Debug, Copy, Clone, PartialEq, Eq)]
pub enum OpenAt {
    /// directly after the owner (before TTL/class), or at the start of an
    /// owner-less line
    BeforeTtl,
    AfterType,
    /// after the i-th RDATA field (1-based), i < number of fields
    AfterField(usize),
}

#[derive(Debug, Copy, Clone, PartialEq, Eq)]
pub enum Breaks {
    None,
    AfterOpen,
    /// after `(` and between all following tokens, `)` on the last data line
    AllButClose,
    /// as above and `)` on a line of its own
    All,
    /// one line break, before the j-th token after `(` (j >= 1)
    Single(usize),
}

#[derive(Debug, Copy, Clone, PartialEq, Eq)]
pub struct Layout {
    pub open: Option<OpenAt>,
    pub breaks: Breaks,
    /// no blank between the preceding token and `(`
    pub open_left: bool,
    /// no blank between `(` and the following token
    pub open_right: bool,
    /// no blank between the last token and `)`
    pub close_left: bool,
}

pub const FLAT: Layout = Layout {
    open: None,
    breaks: Breaks::None,
    open_left: false,
    open_right: false,
    close_left: false,
};

/// The RFC 1035 section 5.3 style: `(` after the first fields, one field per
/// line, `)` glued to the last one.
pub fn layouts(k: usize, level: u8) -> Vec<Layout> {
    let mut v = vec![FLAT];
    if level == 0 {
        return v;
    }
    let mut opens = vec![OpenAt::AfterType];
    if level >= 2 {
        opens.push(OpenAt::BeforeTtl);
        for i in 1..k {
            opens.push(OpenAt::AfterField(i));
        }
    } else if k >= 3 {
        opens.push(OpenAt::AfterField(2));
    }
    for open in opens {
        let after = match open {
            OpenAt::BeforeTtl => k + 3, // upper bound, filtered at render time
            OpenAt::AfterType => k,
            OpenAt::AfterField(i) => k - i,
        };
        let mut breaks = vec![Breaks::None, Breaks::AllButClose, Breaks::All];
        if level >= 2 {
            breaks.push(Breaks::AfterOpen);
            if open != OpenAt::BeforeTtl {
                for j in 1..after {
                    breaks.push(Breaks::Single(j));
                }
            }
        }
        for b in breaks {
            let adj: Vec<(bool, bool, bool)> = if level >= 2 {
                vec![
                    (false, false, false),
                    (false, true, false),
                    (true, false, false),
                    (false, false, true),
                    (true, true, true),
                    (false, true, true),
                ]
            } else {
                vec![
                    (false, false, false),
                    (false, true, false),
                    (true, false, false),
                    (false, false, true),
                ]
            };
            for (ol, or, cl) in adj {
                // adjacency next to a line break does not exist
                let break_after_open = matches!(b, Breaks::AfterOpen | Breaks::AllButClose | Breaks::All);
                let break_before_close = matches!(b, Breaks::All);
                if or && break_after_open {
                    continue;
                }
                if cl && break_before_close {
                    continue;
                }
                v.push(Layout {
                    open: Some(open),
                    breaks: b,
                    open_left: ol,
                    open_right: or,
                    close_left: cl,
                });
            }
        }
    }
    v
}

#[derive(Debug, Copy, Clone, PartialEq, Eq)]
pub enum Comment {
    None,
    Spaced,
    Adjacent,
    Special,
}
pub const COMMENTS: [Comment; 4] = [Comment::None, Comment::Spaced, Comment::Adjacent, Comment::Special];

#[derive(Debug, Clone, PartialEq)]
pub struct RecSyn {
    pub owner_form: NameForm,
    pub tc: TtlClass,
    pub name_form: NameForm,
    pub name_esc: NameEsc,
    pub layout: Layout,
    /// 0: single space; 1: tab; 2: runs of blanks, trailing blanks, no indent
    pub blank: u8,
    pub comment: Comment,
    /// corruption hooks: text written instead of `IN` / of the type mnemonic
    pub class_text: Option<&'static str>,
    pub type_text: Option<&'static str>,
    /// reject (return `None` for) choices that do not change the text, so
    /// that a space enumerating all choices holds no duplicates
    pub strict: bool,
}

impl RecSyn {
    pub fn plain(tc: TtlClass) -> RecSyn {
        RecSyn {
            owner_form: NameForm::Rel,
            tc,
            name_form: NameForm::Rel,
            name_esc: NameEsc::Plain,
            layout: FLAT,
            blank: 0,
            comment: Comment::None,
            class_text: None,
            type_text: None,
            strict: false,
        }
    }
}

#[derive(Debug, Clone, PartialEq)]
pub enum OwnerSel {
    /// explicit owner; `true` = wildcard (`*.` in front of the name)
    Name(Name, bool),
    /// owner field left out (line starts with a blank)
    Inherit,
}

#[derive(Debug, Clone, PartialEq)]
pub struct RecDen {
    pub owner: OwnerSel,
    /// `None`: TTL left out
    pub ttl: Option<u32>,
    pub rvar: RVar,
}

#[derive(Debug, Clone, PartialEq)]
pub enum Entry {
    /// `$ORIGIN`; `relative`: written relative to the origin in force;
    /// `hidden`: the line is not written (corruption "no origin in force")
    Origin { name: Name, relative: bool, hidden: bool },
    Rec(RecDen, RecSyn),
    /// literal text, ignored by the interpreter (used by corruptions)
    Raw(String),
}

#[derive(Debug, Clone, PartialEq)]
pub struct FileSpec {
    pub entries: Vec<Entry>,
    /// 0: nothing; 1: comment and blank lines around the entries, no final
    /// line break; 2: blank-only lines and a comment-only line with leading blanks
    pub noise: u8,
}

// ---------------------------------------------------------------------------
// what a file must mean
// ---------------------------------------------------------------------------

#[derive(Debug, Clone, PartialEq, Eq)]
pub struct Dump {
    pub apex: String,
    pub soa: Option<String>,
    pub recs: Vec<String>,
    pub wild: Vec<String>,
}

impl Dump {
    pub fn to_json(&self) -> Value {
        json!({"apex": self.apex, "soa": self.soa, "records": self.recs, "wildcard_records": self.wild})
    }
    pub fn from_json(v: &Value) -> Option<Dump> {
        let list = |x: &Value| -> Vec<String> {
            x.as_array()
                .map(|a| a.iter().filter_map(|s| s.as_str().map(String::from)).collect())
                .unwrap_or_default()
        };
        Some(Dump {
            apex: v.get("apex")?.as_str()?.to_string(),
            soa: v.get("soa").and_then(|s| s.as_str()).map(String::from),
            recs: list(v.get("records")?),
            wild: list(v.get("wildcard_records")?),
        })
    }
}

/// Observation of a real zone (sorted, so HashMap order never matters).
pub fn dump_zone(z: &Zone) -> Dump {
    let mut recs = Vec::new();
    for (name, zrs) in z.all_records() {
        for zr in zrs {
            recs.push(format!("{} {} {}", show_name(name), zr.ttl, show_data(&zr.rtype_with_data)));
        }
    }
    recs.sort();
    let mut wild = Vec::new();
    for (name, zrs) in z.all_wildcard_records() {
        for zr in zrs {
            wild.push(format!("{} {} {}", show_name(name), zr.ttl, show_data(&zr.rtype_with_data)));
        }
    }
    wild.sort();
    Dump {
        apex: show_name(z.get_apex()),
        soa: z.get_soa().map(|s| show_data(&s.to_rdata())),
        recs,
        wild,
    }
}

#[derive(Debug, Clone, PartialEq, Eq)]
pub enum Expect {
    Ok(Dump),
    /// the file is unsupported or inconsistent: must be rejected; the string
    /// names the first reason found
    Err(&'static str),
    /// outside what the statement, the RFC and the pinned tests decide
    Unjudged(&'static str),
}

/// Alternative readings used only to *attribute* a disagreement to one of the
/// anticipated defects (never to decide whether there is a disagreement).
#[derive(Debug, Copy, Clone, Default, PartialEq, Eq)]
pub struct Hyp {
    /// the TTL carried forward after a SOA is the SOA's MINIMUM
    pub soa_ttl_is_minimum: bool,
    /// an owner written as digits only, followed by an omitted TTL, is read as
    /// a TTL and the record goes to the previous owner
    pub digit_owner_is_ttl: bool,
    /// an owner written `IN`, followed by an omitted class, is read as the
    /// class and the record goes to the previous owner
    pub in_owner_is_class: bool,
}

#[derive(Debug, Clone, Default)]
pub struct Meta {
    /// some `(` or `)` touches an unquoted token on its left
    pub paren_touches_token: bool,
    pub uses_paren: bool,
    /// some record left its TTL out and the value it inherits was carried
    /// through a SOA record
    pub ttl_through_soa: bool,
    /// that SOA's written (or inherited) TTL differs from its MINIMUM
    pub soa_ttl_differs: bool,
    pub omitted_owner: bool,
    pub omitted_ttl: bool,
    pub omitted_class: bool,
    pub class_before_ttl: bool,
    pub wildcard: bool,
    pub relative: bool,
    pub origin_change: bool,
    pub escapes: bool,
    pub quoted: bool,
    pub comment: bool,
    pub digit_owner: bool,
    pub keyword_owner: bool,
    pub soa: bool,
    pub clamp_applies: bool,
    pub records: usize,
}

pub struct Built {
    pub text: String,
    pub expect: Expect,
    pub meta: Meta,
}

fn sep_of(blank: u8) -> &'static str {
    match blank {
        0 => " ",
        1 => "\t",
        _ => " \t  ",
    }
}
fn indent_of(blank: u8) -> &'static str {
    match blank {
        0 => "    ",
        1 => "\t",
        _ => "",
    }
}
fn comment_text(c: Comment, sep: &str) -> String {
    match c {
        Comment::None => String::new(),
        Comment::Spaced => format!("{sep}; a comment"),
        Comment::Adjacent => ";glued comment".to_string(),
        Comment::Special => format!("{sep};x ( \" \\ ) $ORIGIN y. @ ;; \\"),
    }
}

pub fn render_label(l: &[u8], esc: NameEsc) -> String {
    render_label_x(l, esc).0
}

/// Also says whether the escape style changed the text.
pub fn render_label_x(l: &[u8], esc: NameEsc) -> (String, bool) {
    let mut s = String::new();
    let mut eff = false;
    for (i, &b) in l.iter().enumerate() {
        match esc {
            NameEsc::EscX if i == 0 && !b.is_ascii_digit() => {
                s.push('\\');
                s.push(b as char);
                eff = true;
            }
            NameEsc::EscDdd if i == 0 => {
                s.push_str(&format!("\\{b:03}"));
                eff = true;
            }
            NameEsc::Upper => {
                eff |= b.is_ascii_lowercase();
                s.push(b.to_ascii_uppercase() as char)
            }
            _ => s.push(b as char),
        }
    }
    (s, eff)
}

/// Returns the text and whether it depends on the origin.
pub fn render_name(n: &Name, origin: Option<&Name>, form: NameForm, esc: NameEsc) -> (String, bool) {
    let (s, rel, _) = render_name_x(n, origin, form, esc);
    (s, rel)
}

/// (text, depends on the origin, escape style changed the text)
pub fn render_name_x(n: &Name, origin: Option<&Name>, form: NameForm, esc: NameEsc) -> (String, bool, bool) {
    let mut eff = false;
    if form == NameForm::Rel {
        if let Some(o) = origin {
            if under(n, o) {
                if n.len() == o.len() {
                    return ("@".to_string(), true, false);
                }
                let rel = &n[..n.len() - o.len()];
                let s: Vec<String> = rel
                    .iter()
                    .map(|l| {
                        let (t, e) = render_label_x(l, esc);
                        eff |= e;
                        t
                    })
                    .collect();
                return (s.join("."), true, eff);
            }
        }
    }
    if n.is_empty() {
        return (".".to_string(), false, false);
    }
    let mut s = String::new();
    for l in n {
        let (t, e) = render_label_x(l, esc);
        eff |= e;
        s.push_str(&t);
        s.push('.');
    }
    (s, false, eff)
}

fn render_owner(n: &Name, wild: bool, origin: Option<&Name>, form: NameForm, esc: NameEsc) -> (String, bool, bool) {
    if !wild {
        return render_name_x(n, origin, form, esc);
    }
    if form == NameForm::Rel {
        if let Some(o) = origin {
            if under(n, o) {
                if n.len() == o.len() {
                    return ("*".to_string(), true, false);
                }
                let (s, _, e) = render_name_x(n, origin, form, esc);
                return (format!("*.{s}"), true, e);
            }
        }
    }
    if n.is_empty() {
        return ("*.".to_string(), false, false);
    }
    let (s, _, e) = render_name_x(n, None, NameForm::Abs, esc);
    (format!("*.{s}"), false, e)
}

struct Tok {
    text: String,
    quoted: bool,
}

struct RenderedRec {
    text: String,
    relative: bool,
    owner_text: Option<String>,
    owner_relative: bool,
    paren_touches_token: bool,
    uses_paren: bool,
    escapes: bool,
    quoted: bool,
}

/// `None` when the syntax choice does not apply to this record (so that the
/// enumeration stays free of duplicates).
fn render_record(den: &RecDen, syn: &RecSyn, origin: Option<&Name>) -> Option<RenderedRec> {
    let mut toks: Vec<Tok> = Vec::new();
    let mut relative = false;
    let mut owner_text = None;
    let mut owner_relative = false;
    let mut quoted_any = false;
    let mut escapes = false;
    let mut esc_effective = false;
    let mut field_relative = false;
    let has_owner = match &den.owner {
        OwnerSel::Name(n, wild) => {
            let (s, rel, eff) = render_owner(n, *wild, origin, syn.owner_form, syn.name_esc);
            if syn.owner_form == NameForm::Rel && !rel && syn.strict {
                return None; // relative form asked for but not expressible
            }
            esc_effective |= eff;
            relative |= rel;
            owner_relative = rel;
            owner_text = Some(s.clone());
            toks.push(Tok { text: s, quoted: false });
            true
        }
        OwnerSel::Inherit => false,
    };
    match (syn.tc.writes_ttl(), den.ttl) {
        (true, None) | (false, Some(_)) => return None,
        _ => {}
    }
    let class = syn.class_text.unwrap_or("IN").to_string();
    let ttl_text = den.ttl.map(|t| t.to_string()).unwrap_or_default();
    match syn.tc {
        TtlClass::TtlIn => {
            toks.push(Tok { text: ttl_text, quoted: false });
            toks.push(Tok { text: class, quoted: false });
        }
        TtlClass::InTtl => {
            toks.push(Tok { text: class, quoted: false });
            toks.push(Tok { text: ttl_text, quoted: false });
        }
        TtlClass::Ttl => toks.push(Tok { text: ttl_text, quoted: false }),
        TtlClass::In => toks.push(Tok { text: class, quoted: false }),
        TtlClass::Neither => {}
    }
    let type_idx = toks.len();
    let type_text = match syn.type_text {
        Some(t) => t.to_string(),
        None => den.rvar.data.rtype().to_string(),
    };
    toks.push(Tok { text: type_text, quoted: false });
    for f in &den.rvar.fields {
        match f {
            Field::Lit(s) => toks.push(Tok { text: s.clone(), quoted: false }),
            Field::Name(n) => {
                let (s, rel, eff) = render_name_x(n, origin, syn.name_form, syn.name_esc);
                relative |= rel;
                field_relative |= rel;
                esc_effective |= eff;
                toks.push(Tok { text: s, quoted: false });
            }
            Field::Opaque(c, form) => {
                let s = render_opaque(c, *form)?;
                let q = s.starts_with('"');
                quoted_any |= q;
                escapes |= s.contains('\\');
                toks.push(Tok { text: s, quoted: q });
            }
        }
    }
    escapes |= esc_effective && matches!(syn.name_esc, NameEsc::EscX | NameEsc::EscDdd);
    if syn.strict {
        // a choice that leaves the text unchanged is not a separate case
        if syn.name_esc != NameEsc::Plain && !esc_effective {
            return None;
        }
        if syn.name_form == NameForm::Rel && !field_relative {
            return None;
        }
        if !has_owner && syn.owner_form == NameForm::Rel {
            return None;
        }
    }

    let n = toks.len();
    let sep = sep_of(syn.blank);
    let indent = indent_of(syn.blank);
    let trailing = if syn.blank == 2 { sep } else { "" };
    let mut out = String::new();
    let mut paren_touches_token = false;
    let lay = syn.layout;
    let oi: Option<usize> = match lay.open {
        None => None,
        Some(OpenAt::BeforeTtl) => {
            let oi = if has_owner { 1 } else { 0 };
            if oi == type_idx {
                // no TTL/class written: same place as nothing special, keep
                // it (the parenthesis then stands directly before the type)
            }
            Some(oi)
        }
        Some(OpenAt::AfterType) => Some(type_idx + 1),
        Some(OpenAt::AfterField(i)) => {
            if i >= den.rvar.fields.len() {
                return None;
            }
            Some(type_idx + 1 + i)
        }
    };
    // which gaps (index g = before token g; g == n: before `)`) are line breaks
    let mut brk = vec![false; n + 1];
    if let Some(oi) = oi {
        match lay.breaks {
            Breaks::None => {}
            Breaks::AfterOpen => brk[oi] = true,
            Breaks::AllButClose => {
                for b in brk.iter_mut().take(n).skip(oi) {
                    *b = true;
                }
            }
            Breaks::All => {
                for b in brk.iter_mut().take(n + 1).skip(oi) {
                    *b = true;
                }
            }
            Breaks::Single(j) => {
                if oi + j >= n {
                    return None;
                }
                brk[oi + j] = true;
            }
        }
        if lay.open_left && oi == 0 {
            return None; // nothing to touch on the left
        }
        if lay.open_right && brk[oi] {
            return None;
        }
        if lay.close_left && brk[n] {
            return None;
        }
    } else if lay.breaks != Breaks::None || lay.open_left || lay.open_right || lay.close_left {
        return None;
    }
    let line_end = |out: &mut String| {
        out.push_str(&comment_text(syn.comment, sep));
        if syn.comment == Comment::None {
            out.push_str(trailing);
        }
        out.push('\n');
    };
    if !has_owner {
        out.push_str(sep);
    }
    for idx in 0..n {
        if Some(idx) == oi {
            if idx > 0 {
                if lay.open_left {
                    if !toks[idx - 1].quoted {
                        paren_touches_token = true;
                    }
                } else {
                    out.push_str(sep);
                }
            }
            out.push('(');
            if brk[idx] {
                line_end(&mut out);
                out.push_str(indent);
            } else if !lay.open_right {
                out.push_str(sep);
            }
        } else if idx > 0 {
            if brk[idx] {
                line_end(&mut out);
                out.push_str(indent);
            } else {
                out.push_str(sep);
            }
        }
        out.push_str(&toks[idx].text);
    }
    if oi.is_some() {
        if brk[n] {
            line_end(&mut out);
            out.push_str(indent);
        } else if lay.close_left {
            if !toks[n - 1].quoted {
                paren_touches_token = true;
            }
        } else {
            out.push_str(sep);
        }
        out.push(')');
    }
    line_end(&mut out);
    Some(RenderedRec {
        text: out,
        relative,
        owner_text,
        owner_relative,
        paren_touches_token,
        uses_paren: oi.is_some(),
        escapes,
        quoted: quoted_any,
    })
}

#[derive(Clone)]
struct DRec {
    owner: Name,
    wild: bool,
    ttl: u32,
    data: RData,
}

#[derive(Clone, Copy, PartialEq)]
enum LastTtl {
    Nothing,
    Known(u32),
    /// carried forward from a SOA that was written without a TTL and had none
    /// to inherit: RFC 1035 does not say what follows
    Unjudged,
}

/// Render `spec` and compute what it must mean under reading `hyp`
/// (`Hyp::default()` = RFC 1035 section 5 as restated by property C11).
pub fn build(spec: &FileSpec, hyp: Hyp) -> Option<Built> {
    let mut text = String::new();
    let mut meta = Meta::default();
    // origin the text was written against / origin a reader has in force
    let mut render_origin: Option<Name> = None;
    let mut sem_origin: Option<Name> = None;
    let mut last_owner: Option<(Name, bool)> = None;
    let mut last_ttl = LastTtl::Nothing;
    let mut ttl_via_soa = false; // last_ttl was carried through a SOA
    let mut soa_ttl_diff = false;
    let mut recs: Vec<DRec> = Vec::new();
    let mut soas: Vec<(Name, bool, RData)> = Vec::new();
    let mut err: Option<&'static str> = None;
    let mut unjudged: Option<&'static str> = None;
    let mut first_entry = true;
    let mut origins_seen = 0;

    let noise_between = |text: &mut String, noise: u8, first: bool| match noise {
        1 => {
            if first {
                text.push_str("; zone file written by the generator\n\n");
            } else {
                text.push_str("\n; next entry ( \" \\\n");
            }
        }
        2 => {
            if first {
                text.push_str("  \t\n\n");
            } else {
                text.push_str(" \t \n   ; indented comment\n");
            }
        }
        _ => {}
    };

    for e in &spec.entries {
        match e {
            Entry::Raw(s) => {
                noise_between(&mut text, spec.noise, first_entry);
                first_entry = false;
                text.push_str(s);
            }
            Entry::Origin { name, relative, hidden } => {
                let (s, rel) = render_name(
                    name,
                    render_origin.as_ref(),
                    if *relative { NameForm::Rel } else { NameForm::Abs },
                    NameEsc::Plain,
                );
                if *relative && !rel {
                    return None;
                }
                if !*hidden {
                    noise_between(&mut text, spec.noise, first_entry);
                    first_entry = false;
                    text.push_str("$ORIGIN ");
                    text.push_str(&s);
                    text.push('\n');
                    if rel && sem_origin.is_none() {
                        err.get_or_insert("relative-name-without-origin");
                    }
                    sem_origin = Some(name.clone());
                    origins_seen += 1;
                    if origins_seen > 1 {
                        meta.origin_change = true;
                    }
                    meta.relative |= rel;
                }
                render_origin = Some(name.clone());
            }
            Entry::Rec(den, syn) => {
                let r = render_record(den, syn, render_origin.as_ref())?;
                noise_between(&mut text, spec.noise, first_entry);
                first_entry = false;
                text.push_str(&r.text);
                meta.records += 1;
                meta.paren_touches_token |= r.paren_touches_token;
                meta.uses_paren |= r.uses_paren;
                meta.escapes |= r.escapes;
                meta.quoted |= r.quoted;
                meta.relative |= r.relative;
                meta.comment |= syn.comment != Comment::None;
                meta.omitted_class |= !syn.tc.writes_class();
                meta.class_before_ttl |= syn.tc == TtlClass::InTtl;
                if r.relative {
                    match (&sem_origin, &render_origin) {
                        (None, _) => {
                            err.get_or_insert("relative-name-without-origin");
                        }
                        (Some(a), Some(b)) if a == b => {}
                        _ => return None, // generator misuse
                    }
                }
                if syn.class_text.is_some() {
                    err.get_or_insert("class-not-in");
                }
                if syn.type_text.is_some() {
                    err.get_or_insert("unknown-type");
                }
                let is_soa = den.rvar.data.rtype() == RecordType::SOA;
                // --- owner
                let mut digits_as_ttl: Option<&str> = None;
                let mut in_as_class = false;
                let owner: Option<(Name, bool)> = match &den.owner {
                    OwnerSel::Name(n, w) => {
                        let t = r.owner_text.as_deref().unwrap_or("");
                        let all_digits = !t.is_empty() && t.bytes().all(|b| b.is_ascii_digit());
                        if all_digits && r.owner_relative {
                            meta.digit_owner = true;
                            if hyp.digit_owner_is_ttl && den.ttl.is_none() {
                                digits_as_ttl = Some(t);
                            }
                        }
                        if t == "IN" && r.owner_relative {
                            meta.keyword_owner = true;
                            if hyp.in_owner_is_class && !syn.tc.writes_class() {
                                in_as_class = true;
                            }
                        }
                        if t.parse::<RecordType>().map(|x| !x.is_unknown()).unwrap_or(false) && r.owner_relative {
                            meta.keyword_owner = true;
                        }
                        meta.wildcard |= *w;
                        if digits_as_ttl.is_some() || in_as_class {
                            if last_owner.is_none() {
                                err.get_or_insert("no-owner-to-inherit");
                            }
                            last_owner.clone()
                        } else {
                            Some((n.clone(), *w))
                        }
                    }
                    OwnerSel::Inherit => {
                        meta.omitted_owner = true;
                        if last_owner.is_none() {
                            err.get_or_insert("no-owner-to-inherit");
                        }
                        last_owner.clone()
                    }
                };
                // --- TTL
                let written_ttl: Option<u32> = if let Some(d) = digits_as_ttl {
                    match d.parse::<u32>() {
                        Ok(v) => Some(v),
                        Err(_) => {
                            err.get_or_insert("bad-number");
                            Some(0)
                        }
                    }
                } else {
                    den.ttl
                };
                let ttl: u32 = match written_ttl {
                    Some(v) => {
                        if !is_soa {
                            ttl_via_soa = false;
                        }
                        v
                    }
                    None => {
                        meta.omitted_ttl = true;
                        match last_ttl {
                            LastTtl::Known(v) => {
                                if ttl_via_soa && !is_soa {
                                    meta.ttl_through_soa = true;
                                    meta.soa_ttl_differs |= soa_ttl_diff;
                                }
                                v
                            }
                            LastTtl::Nothing => {
                                if !is_soa {
                                    err.get_or_insert("no-ttl-to-inherit");
                                }
                                0
                            }
                            LastTtl::Unjudged => {
                                if !is_soa {
                                    unjudged.get_or_insert("ttl-inherited-from-soa-without-ttl");
                                }
                                0
                            }
                        }
                    }
                };
                if is_soa {
                    meta.soa = true;
                    let minimum = match &den.rvar.data {
                        RData::Soa { minimum, .. } => *minimum,
                        _ => 0,
                    };
                    let carried = match (written_ttl, last_ttl) {
                        (Some(v), _) => LastTtl::Known(v),
                        (None, l) => l,
                    };
                    ttl_via_soa = true;
                    soa_ttl_diff = match carried {
                        LastTtl::Known(v) => v != minimum,
                        _ => false,
                    };
                    last_ttl = if hyp.soa_ttl_is_minimum {
                        LastTtl::Known(minimum)
                    } else if carried == LastTtl::Nothing {
                        LastTtl::Unjudged
                    } else {
                        carried
                    };
                } else {
                    last_ttl = LastTtl::Known(ttl);
                }
                if let Some((n, w)) = owner {
                    last_owner = Some((n.clone(), w));
                    if is_soa {
                        soas.push((n, w, den.rvar.data.clone()));
                    } else {
                        recs.push(DRec {
                            owner: n,
                            wild: w,
                            ttl,
                            data: den.rvar.data.clone(),
                        });
                    }
                }
            }
        }
    }
    match spec.noise {
        1 => {
            text.push_str("\n; end of file, no line break after this");
        }
        2 => text.push_str("\t\n \n"),
        _ => {}
    }

    let expect = if let Some(e) = err {
        Expect::Err(e)
    } else if soas.len() > 1 {
        Expect::Err("two-soa")
    } else if soas.iter().any(|(_, w, _)| *w) {
        Expect::Err("wildcard-soa")
    } else {
        let (apex, soa): (Name, Option<RData>) = match soas.first() {
            Some((n, _, d)) => (n.clone(), Some(d.clone())),
            None => (Vec::new(), None),
        };
        if recs.iter().any(|r| !under(&r.owner, &apex)) {
            Expect::Err("owner-outside-apex")
        } else if let Some(u) = unjudged {
            Expect::Unjudged(u)
        } else {
            let minimum = match &soa {
                Some(RData::Soa { minimum, .. }) => Some(*minimum),
                _ => None,
            };
            let mut d = Dump {
                apex: show_name(&to_domain(&apex)),
                soa: soa.as_ref().map(|s| show_data(&s.to_rtwd())),
                recs: Vec::new(),
                wild: Vec::new(),
            };
            if let (Some(s), Some(m)) = (&soa, minimum) {
                d.recs.push(format!("{} {} {}", d.apex, m, show_data(&s.to_rtwd())));
            }
            for r in &recs {
                let ttl = match minimum {
                    Some(m) if r.ttl < m => {
                        meta.clamp_applies = true;
                        m
                    }
                    _ => r.ttl,
                };
                let line = format!("{} {} {}", show_name(&to_domain(&r.owner)), ttl, show_data(&r.data.to_rtwd()));
                if r.wild {
                    d.wild.push(line);
                } else {
                    d.recs.push(line);
                }
            }
            d.recs.sort();
            d.recs.dedup();
            d.wild.sort();
            d.wild.dedup();
            Expect::Ok(d)
        }
    };
    Some(Built { text, expect, meta })
}

/// The same file with every parenthesis surrounded by blanks.
pub fn respaced(spec: &FileSpec) -> FileSpec {
    let mut s = spec.clone();
    for e in s.entries.iter_mut() {
        if let Entry::Rec(_, syn) = e {
            syn.layout.open_left = false;
            syn.layout.open_right = false;
            syn.layout.close_left = false;
        }
    }
    s
}

// ---------------------------------------------------------------------------
// mixed-radix index decoding
// ---------------------------------------------------------------------------

pub struct Radix(pub usize);
impl Radix {
    pub fn take(&mut self, n: usize) -> usize {
        let r = self.0 % n;
        self.0 /= n;
        r
    }
    pub fn pick<T: Clone>(&mut self, items: &[T]) -> T {
        let i = self.take(items.len());
        items[i].clone()
    }
}

// ---------------------------------------------------------------------------
// frames: what surrounds the record(s) under test
// ---------------------------------------------------------------------------

#[derive(Debug, Copy, Clone, PartialEq, Eq)]
pub enum Frame {
    /// `$ORIGIN ex.`, SOA at `@` first, written TTL 60 = MINIMUM 60 (so that a
    /// TTL inherited from it is the same under every reading)
    AuthSoaFirst,
    /// the same with written TTL 3600 > MINIMUM 60
    AuthSoaHighTtl,
    /// `$ORIGIN ex.`, no SOA
    NonAuth,
    /// `$ORIGIN ex.`, records, then the SOA
    AuthSoaLast,
    /// `$ORIGIN .`, SOA at the root first
    RootAuth,
    /// no `$ORIGIN` at all, no SOA
    NoOrigin,
    /// `$ORIGIN ex.`, SOA at `@`, `$ORIGIN sub` (relative), then the records
    AuthOriginBelowApex,
    /// `$ORIGIN ex.`, SOA written without TTL first (MINIMUM 60)
    AuthSoaNoTtl,
    /// `$ORIGIN ex.`, SOA first with written TTL 30 < MINIMUM 60
    AuthSoaLowTtl,
}
pub const FRAMES: [Frame; 9] = [
    Frame::AuthSoaFirst,
    Frame::AuthSoaHighTtl,
    Frame::NonAuth,
    Frame::AuthSoaLast,
    Frame::RootAuth,
    Frame::NoOrigin,
    Frame::AuthOriginBelowApex,
    Frame::AuthSoaNoTtl,
    Frame::AuthSoaLowTtl,
];

impl Frame {
    /// origin in force where the records under test stand
    pub fn origin(self) -> Name {
        match self {
            Frame::RootAuth => Vec::new(),
            Frame::AuthOriginBelowApex => nm("sub.ex."),
            _ => nm("ex."),
        }
    }
    pub fn apex(self) -> Name {
        match self {
            Frame::AuthSoaFirst
            | Frame::AuthSoaHighTtl
            | Frame::AuthSoaLast
            | Frame::AuthOriginBelowApex
            | Frame::AuthSoaNoTtl
            | Frame::AuthSoaLowTtl => nm("ex."),
            _ => Vec::new(),
        }
    }
    pub fn has_soa(self) -> bool {
        !matches!(self, Frame::NonAuth | Frame::NoOrigin)
    }
    fn soa_entry(self, ttl: Option<u32>, minimum: u32) -> Entry {
        let apex = self.apex();
        let rvar = soa_rvar(
            &child("ns1", &apex),
            &child("admin", &apex),
            [1, 7200, 600, 3600000, minimum],
        );
        let tc = if ttl.is_some() { TtlClass::TtlIn } else { TtlClass::In };
        Entry::Rec(
            RecDen {
                owner: OwnerSel::Name(apex, false),
                ttl,
                rvar,
            },
            RecSyn::plain(tc),
        )
    }
    /// Wrap `inner` (the entries under test) into a whole file.
    pub fn wrap(self, inner: Vec<Entry>, noise: u8) -> FileSpec {
        let mut entries = Vec::new();
        let org = |n: Name, relative: bool| Entry::Origin { name: n, relative, hidden: false };
        match self {
            Frame::AuthSoaFirst => {
                entries.push(org(nm("ex."), false));
                entries.push(self.soa_entry(Some(60), 60));
                entries.extend(inner);
            }
            Frame::AuthSoaHighTtl => {
                entries.push(org(nm("ex."), false));
                entries.push(self.soa_entry(Some(3600), 60));
                entries.extend(inner);
            }
            Frame::AuthSoaNoTtl => {
                entries.push(org(nm("ex."), false));
                entries.push(self.soa_entry(None, 60));
                entries.extend(inner);
            }
            Frame::AuthSoaLowTtl => {
                entries.push(org(nm("ex."), false));
                entries.push(self.soa_entry(Some(30), 60));
                entries.extend(inner);
            }
            Frame::NonAuth => {
                entries.push(org(nm("ex."), false));
                entries.extend(inner);
            }
            Frame::AuthSoaLast => {
                entries.push(org(nm("ex."), false));
                entries.extend(inner);
                entries.push(self.soa_entry(Some(3600), 60));
            }
            Frame::RootAuth => {
                entries.push(org(Vec::new(), false));
                entries.push(self.soa_entry(Some(3600), 60));
                entries.extend(inner);
            }
            Frame::NoOrigin => {
                entries.push(Entry::Origin { name: nm("ex."), relative: false, hidden: true });
                entries.extend(inner);
            }
            Frame::AuthOriginBelowApex => {
                entries.push(org(nm("ex."), false));
                entries.push(self.soa_entry(Some(3600), 60));
                entries.push(org(nm("sub.ex."), true));
                entries.extend(inner);
            }
        }
        FileSpec { entries, noise }
    }
}

/// Owners offered to a record standing under `origin`:
/// origin itself, one label below, two labels below, a name elsewhere, the root.
pub fn owner_pool(origin: &Name) -> Vec<Name> {
    vec![
        origin.clone(),
        child("www", origin),
        child("deep", &child("er", origin)),
        nm("host.other."),
        Vec::new(),
    ]
}

// ---------------------------------------------------------------------------
// S1: single records, full syntactic product
// ---------------------------------------------------------------------------

pub struct Singles {
    /// (frame, RDATA variant, layout, layout belongs to the level-1 set)
    heads: Vec<(Frame, RVar, Layout, bool)>,
    ttls: Vec<u32>,
    escs: Vec<NameEsc>,
    blanks: usize,
    comments: Vec<Comment>,
    noises: usize,
    owners: usize,
    pub level: u8,
}

impl Singles {
    /// level 0: canonical layout only (C13/C17 corpus); 1: quick; 2: thorough
    pub fn new(level: u8) -> Singles {
        Singles::with(level, if level == 0 { 1 } else { level })
    }

    /// As `new`, with the level of the RDATA variant menu chosen separately.
    pub fn with(level: u8, rdata_level: u8) -> Singles {
        let frames: Vec<Frame> = match level {
            0 => vec![Frame::AuthSoaFirst, Frame::NonAuth, Frame::RootAuth, Frame::AuthOriginBelowApex],
            1 => vec![
                Frame::AuthSoaFirst,
                Frame::NonAuth,
                Frame::AuthSoaLast,
                Frame::RootAuth,
                Frame::NoOrigin,
                Frame::AuthOriginBelowApex,
            ],
            _ => FRAMES.iter().copied().filter(|f| *f != Frame::AuthSoaHighTtl).collect(),
        };
        let mut heads = Vec::new();
        for f in &frames {
            for t in NON_SOA_TYPES {
                for rv in rdata_variants(t, &f.origin(), rdata_level) {
                    let llevel = match (level, *f) {
                        (0, _) => 0,
                        (1, Frame::AuthSoaFirst) | (1, Frame::NonAuth) => 1,
                        (1, _) => 0,
                        (_, Frame::AuthSoaFirst) | (_, Frame::NonAuth) => 2,
                        _ => 1,
                    };
                    let basic = layouts(rv.fields.len(), llevel.min(1));
                    for l in layouts(rv.fields.len(), llevel) {
                        let is_basic = basic.contains(&l);
                        heads.push((*f, rv.clone(), l, is_basic));
                    }
                }
            }
        }
        Singles {
            heads,
            ttls: match level {
                0 | 1 => vec![300, 30],
                _ => vec![300, 30, 0, 4294967295],
            },
            escs: match level {
                0 => vec![NameEsc::Plain],
                1 => vec![NameEsc::Plain, NameEsc::EscX],
                _ => NAME_ESCS.to_vec(),
            },
            blanks: match level {
                0 => 1,
                1 => 2,
                _ => 3,
            },
            comments: match level {
                0 => vec![Comment::None],
                1 => vec![Comment::None, Comment::Adjacent, Comment::Special],
                _ => COMMENTS.to_vec(),
            },
            noises: match level {
                0 => 1,
                1 => 2,
                _ => 3,
            },
            owners: 5,
            level,
        }
    }

    pub fn count(&self) -> usize {
        self.heads.len()
            * self.owners
            * 2 // wildcard
            * 2 // owner form
            * self.ttls.len()
            * 5 // ttl/class
            * 2 // name form
            * self.escs.len()
            * self.blanks
            * self.comments.len()
            * self.noises
    }

    pub fn spec(&self, idx: usize) -> Option<FileSpec> {
        let mut r = Radix(idx);
        // cheap lexical dimensions vary fastest
        let noise = r.take(self.noises) as u8;
        let comment = r.pick(&self.comments);
        let blank = r.take(self.blanks) as u8;
        let name_esc = r.pick(&self.escs);
        let name_form = if r.take(2) == 0 { NameForm::Rel } else { NameForm::Abs };
        let tc = r.pick(&TTL_CLASS);
        let ttl = r.pick(&self.ttls);
        let owner_form = if r.take(2) == 0 { NameForm::Rel } else { NameForm::Abs };
        let wild = r.take(2) == 1;
        let owner_i = r.take(self.owners);
        let (frame, rvar, layout, basic_layout) = &self.heads[r.take(self.heads.len())];
        // the TTL value dimension only exists when a TTL is written
        if !tc.writes_ttl() && ttl != self.ttls[0] {
            return None;
        }
        // quick tier: blank style, surrounding noise and escape style are
        // varied one at a time, not multiplied with each other
        if self.level == 1 && ((blank != 0 && noise != 0) || (name_esc != NameEsc::Plain && (comment != Comment::None || blank != 0 || noise != 0))) {
            return None;
        }
        // thorough tier: the extended layouts (every opening position, every
        // single line break, combined adjacencies) are combined with two
        // comment styles, two escape styles, two TTL values, one blank style
        // and no surrounding noise; the basic layouts get the full product
        if !*basic_layout
            && (blank != 0
                || noise != 0
                || matches!(comment, Comment::Spaced | Comment::Special)
                || matches!(name_esc, NameEsc::EscDdd | NameEsc::Upper)
                || (ttl != self.ttls[0] && ttl != self.ttls[1]))
        {
            return None;
        }
        // the extra TTL values (0, 2^32-1) and the extra escape styles are not
        // multiplied with each other
        if self.level >= 2 && ttl != self.ttls[0] && ttl != self.ttls[1] && name_esc != NameEsc::Plain {
            return None;
        }
        // lexical variety is only multiplied into the two main frames
        if !matches!(frame, Frame::AuthSoaFirst | Frame::NonAuth) && self.level >= 1 && (blank != 0 || noise != 0) {
            return None;
        }
        let origin = frame.origin();
        let owner = owner_pool(&origin)[owner_i].clone();
        if owner_i == 4 && origin.is_empty() {
            return None; // same as owner 0 under the root origin
        }
        let den = RecDen {
            owner: OwnerSel::Name(owner, wild),
            ttl: if tc.writes_ttl() { Some(ttl) } else { None },
            rvar: rvar.clone(),
        };
        let syn = RecSyn {
            owner_form,
            tc,
            name_form,
            name_esc,
            layout: *layout,
            blank,
            comment,
            class_text: None,
            type_text: None,
            strict: true,
        };
        Some(frame.wrap(vec![Entry::Rec(den, syn)], noise))
    }
}

// ---------------------------------------------------------------------------
// S2: ordered pairs of records, every form of the first x every form of the second
// ---------------------------------------------------------------------------

#[derive(Clone)]
pub struct RecForm {
    /// 0..pool: explicit owner; pool: inherit
    owner: usize,
    wild: bool,
    owner_form: NameForm,
    /// None = TTL left out
    ttl: Option<u32>,
    tc: TtlClass,
    rvar_i: usize,
    layout_i: usize,
    name_form: NameForm,
}

pub struct Pairs {
    types: Vec<RecordType>,
    forms: Vec<RecForm>,
    frames: Vec<Frame>,
    /// 0: none, 1: `$ORIGIN sub.<origin>` absolute, 2: `$ORIGIN sub` relative
    origin_changes: usize,
    layouts: Vec<Layout>,
}

pub const PAIR_TYPES: [RecordType; 6] = [
    RecordType::A,
    RecordType::MX,
    RecordType::TXT,
    RecordType::CNAME,
    RecordType::SRV,
    RecordType::AAAA,
];

fn pair_layouts() -> Vec<Layout> {
    vec![
        FLAT,
        Layout {
            open: Some(OpenAt::AfterType),
            breaks: Breaks::All,
            open_left: false,
            open_right: false,
            close_left: false,
        },
    ]
}

impl Pairs {
    /// level 0: canonical (C13 corpus); 1: quick; 2: thorough
    pub fn new(level: u8) -> Pairs {
        let types: Vec<RecordType> = match level {
            0 | 1 => PAIR_TYPES[..3].to_vec(),
            _ => PAIR_TYPES.to_vec(),
        };
        let n_layouts = if level >= 2 { 2 } else { 1 };
        let name_forms: Vec<NameForm> = vec![NameForm::Rel];
        let ttls: Vec<u32> = vec![300, 30];
        let owners = 3usize; // origin, www, host.other.
        let mut forms = Vec::new();
        for rvar_i in 0..types.len() {
            for layout_i in 0..n_layouts {
                for nf in &name_forms {
                    for tc in TTL_CLASS {
                        let tvals: Vec<Option<u32>> = if tc.writes_ttl() {
                            ttls.iter().map(|t| Some(*t)).collect()
                        } else {
                            vec![None]
                        };
                        for ttl in tvals {
                            for owner in 0..=owners {
                                if owner == owners {
                                    forms.push(RecForm {
                                        owner,
                                        wild: false,
                                        owner_form: NameForm::Rel,
                                        ttl,
                                        tc,
                                        rvar_i,
                                        layout_i,
                                        name_form: *nf,
                                    });
                                    continue;
                                }
                                for wild in [false, true] {
                                    for of in [NameForm::Rel, NameForm::Abs] {
                                        if owner == 2 && of == NameForm::Rel {
                                            continue; // not expressible
                                        }
                                        if level == 0 && wild && owner == 2 {
                                            continue;
                                        }
                                        forms.push(RecForm {
                                            owner,
                                            wild,
                                            owner_form: of,
                                            ttl,
                                            tc,
                                            rvar_i,
                                            layout_i,
                                            name_form: *nf,
                                        });
                                    }
                                }
                            }
                        }
                    }
                }
            }
        }
        Pairs {
            types,
            forms,
            frames: match level {
                0 => vec![Frame::AuthSoaFirst, Frame::NonAuth],
                1 => vec![
                    Frame::AuthSoaHighTtl,
                    Frame::NonAuth,
                    Frame::AuthSoaLast,
                    Frame::AuthSoaNoTtl,
                ],
                _ => vec![
                    Frame::AuthSoaHighTtl,
                    Frame::NonAuth,
                    Frame::AuthSoaLast,
                    Frame::AuthSoaNoTtl,
                    Frame::AuthSoaLowTtl,
                    Frame::AuthSoaFirst,
                    Frame::RootAuth,
                    Frame::NoOrigin,
                ],
            },
            origin_changes: if level == 0 { 1 } else { 3 },
            layouts: pair_layouts(),
        }
    }

    pub fn forms(&self) -> usize {
        self.forms.len()
    }

    pub fn count(&self) -> usize {
        // the extra factor 2: SOA between the two records (only used with
        // frame AuthSoaFirst, where it replaces "first")
        self.forms.len() * self.forms.len() * self.frames.len() * self.origin_changes * 2
    }

    fn entry(&self, f: &RecForm, origin: &Name) -> Entry {
        let pool = [origin.clone(), child("www", origin), nm("host.other.")];
        let rvar = rdata_variants(self.types[f.rvar_i], origin, 0).remove(0);
        let den = RecDen {
            owner: if f.owner >= pool.len() {
                OwnerSel::Inherit
            } else {
                OwnerSel::Name(pool[f.owner].clone(), f.wild)
            },
            ttl: f.ttl,
            rvar,
        };
        let mut syn = RecSyn::plain(f.tc);
        syn.owner_form = f.owner_form;
        syn.name_form = f.name_form;
        syn.layout = self.layouts[f.layout_i];
        Entry::Rec(den, syn)
    }

    pub fn spec(&self, idx: usize) -> Option<FileSpec> {
        let mut r = Radix(idx);
        let f2 = &self.forms[r.take(self.forms.len())];
        let f1 = &self.forms[r.take(self.forms.len())];
        let oc = r.take(self.origin_changes);
        let soa_middle = r.take(2) == 1;
        let frame = r.pick(&self.frames);
        if soa_middle && frame != Frame::AuthSoaHighTtl {
            return None;
        }
        let origin1 = frame.origin();
        let origin2 = if oc == 0 { origin1.clone() } else { child("sub", &origin1) };
        if oc != 0 && frame == Frame::NoOrigin {
            return None;
        }
        let e1 = self.entry(f1, &origin1);
        let e2 = self.entry(f2, &origin2);
        let mut inner = vec![e1];
        if oc != 0 {
            inner.push(Entry::Origin {
                name: origin2.clone(),
                relative: oc == 2,
                hidden: false,
            });
        }
        if soa_middle {
            // `$ORIGIN ex.` R1 [origin change] SOA R2 -- the SOA stands at the apex `ex.`
            let mut spec = Frame::NonAuth.wrap(inner, 0);
            let apex = nm("ex.");
            let rvar = soa_rvar(&child("ns1", &apex), &child("admin", &apex), [1, 7200, 600, 3600000, 60]);
            let mut syn = RecSyn::plain(TtlClass::TtlIn);
            syn.owner_form = NameForm::Abs;
            syn.name_form = NameForm::Abs;
            spec.entries.push(Entry::Rec(
                RecDen {
                    owner: OwnerSel::Name(apex, false),
                    ttl: Some(3600),
                    rvar,
                },
                syn,
            ));
            spec.entries.push(e2);
            return Some(spec);
        }
        inner.push(e2);
        Some(frame.wrap(inner, 0))
    }
}

// ---------------------------------------------------------------------------
// S3: triples restricted to the inheritance forms
// ---------------------------------------------------------------------------

pub struct Triples {
    /// (owner: 0 www, 1 mail, 2 inherit, 3 `*.www`; ttl; tc)
    forms: Vec<(usize, Option<u32>, TtlClass)>,
    /// where the SOA stands: 0 absent, 1 first, 2 after R1, 3 after R2, 4 last
    soa_places: usize,
    /// SOA written TTL: none / 30 (< MINIMUM 60) / 3600 (> MINIMUM)
    soa_ttls: Vec<Option<u32>>,
    soa_tcs: Vec<TtlClass>,
}

impl Triples {
    pub fn new(level: u8) -> Triples {
        let mut forms = Vec::new();
        let owners = if level >= 2 { 4 } else { 3 };
        for owner in 0..owners {
            for tc in TTL_CLASS {
                if tc.writes_ttl() {
                    for t in [300u32, 30] {
                        forms.push((owner, Some(t), tc));
                    }
                } else {
                    forms.push((owner, None, tc));
                }
            }
        }
        Triples {
            forms,
            soa_places: 5,
            soa_ttls: vec![None, Some(30), Some(3600)],
            soa_tcs: if level >= 2 {
                vec![TtlClass::TtlIn, TtlClass::InTtl, TtlClass::Ttl, TtlClass::In, TtlClass::Neither]
            } else {
                vec![TtlClass::TtlIn, TtlClass::In]
            },
        }
    }

    pub fn count(&self) -> usize {
        let f = self.forms.len();
        f * f * f * self.soa_places * self.soa_ttls.len() * self.soa_tcs.len()
    }

    pub fn spec(&self, idx: usize) -> Option<FileSpec> {
        let mut r = Radix(idx);
        let f3 = self.forms[r.take(self.forms.len())];
        let f2 = self.forms[r.take(self.forms.len())];
        let f1 = self.forms[r.take(self.forms.len())];
        let soa_tc = r.pick(&self.soa_tcs);
        let soa_ttl = r.pick(&self.soa_ttls);
        let place = r.take(self.soa_places);
        if place == 0 && (soa_ttl.is_some() || soa_tc != self.soa_tcs[0]) {
            return None;
        }
        if place != 0 && soa_tc.writes_ttl() != soa_ttl.is_some() {
            return None;
        }
        let origin = nm("ex.");
        let types = [RecordType::A, RecordType::TXT, RecordType::MX];
        let mk = |f: (usize, Option<u32>, TtlClass), i: usize| -> Entry {
            let owner = match f.0 {
                0 => OwnerSel::Name(child("www", &origin), false),
                1 => OwnerSel::Name(child("mail", &origin), false),
                2 => OwnerSel::Inherit,
                _ => OwnerSel::Name(child("www", &origin), true),
            };
            let rvar = rdata_variants(types[i], &origin, 0).remove(0);
            Entry::Rec(RecDen { owner, ttl: f.1, rvar }, RecSyn::plain(f.2))
        };
        let soa = || -> Entry {
            let rvar = soa_rvar(&child("ns1", &origin), &child("admin", &origin), [1, 7200, 600, 3600000, 60]);
            Entry::Rec(
                RecDen {
                    owner: OwnerSel::Name(origin.clone(), false),
                    ttl: soa_ttl,
                    rvar,
                },
                RecSyn::plain(soa_tc),
            )
        };
        let mut entries = vec![Entry::Origin { name: origin.clone(), relative: false, hidden: false }];
        let recs = [mk(f1, 0), mk(f2, 1), mk(f3, 2)];
        if place == 1 {
            entries.push(soa());
        }
        for (i, e) in recs.iter().enumerate() {
            entries.push(e.clone());
            if place == i + 2 && i < 2 {
                entries.push(soa());
            }
        }
        if place == 4 {
            entries.push(soa());
        }
        Some(FileSpec { entries, noise: 0 })
    }
}

// ---------------------------------------------------------------------------
// S4: the SOA record itself in every syntactic form
// ---------------------------------------------------------------------------

pub struct SoaForms {
    heads: Vec<(RVar, Layout)>,
    soa_ttls: Vec<Option<u32>>,
    escs: Vec<NameEsc>,
    blanks: usize,
    comments: Vec<Comment>,
    /// 0: SOA alone; 1: followed by `www 300 IN A`; 2: preceded by it
    contexts: usize,
}

impl SoaForms {
    pub fn new(level: u8) -> SoaForms {
        let base = nm("ex.");
        let mut heads = Vec::new();
        for rv in rdata_variants(RecordType::SOA, &base, level.max(1)) {
            for l in layouts(7, level.max(1)) {
                heads.push((rv.clone(), l));
            }
        }
        SoaForms {
            heads,
            soa_ttls: vec![Some(3600), Some(30)],
            escs: if level >= 2 { NAME_ESCS.to_vec() } else { vec![NameEsc::Plain] },
            blanks: if level >= 2 { 3 } else { 2 },
            comments: if level >= 2 {
                COMMENTS.to_vec()
            } else {
                vec![Comment::None, Comment::Adjacent]
            },
            contexts: 3,
        }
    }

    pub fn count(&self) -> usize {
        self.heads.len()
            * self.soa_ttls.len()
            * 5
            * 3 // owner: `@`/abs apex, relative child `zone` (apex zone.ex.), root
            * 2
            * 2
            * self.escs.len()
            * self.blanks
            * self.comments.len()
            * self.contexts
    }

    pub fn spec(&self, idx: usize) -> Option<FileSpec> {
        let mut r = Radix(idx);
        let comment = r.pick(&self.comments);
        let blank = r.take(self.blanks) as u8;
        let name_esc = r.pick(&self.escs);
        let name_form = if r.take(2) == 0 { NameForm::Rel } else { NameForm::Abs };
        let owner_form = if r.take(2) == 0 { NameForm::Rel } else { NameForm::Abs };
        let owner_i = r.take(3);
        let tc = r.pick(&TTL_CLASS);
        let ttl = r.pick(&self.soa_ttls);
        let context = r.take(self.contexts);
        let (rvar, layout) = &self.heads[r.take(self.heads.len())];
        if !tc.writes_ttl() && ttl != self.soa_ttls[0] {
            return None;
        }
        let origin = nm("ex.");
        let owner = match owner_i {
            0 => origin.clone(),
            1 => child("zone", &origin),
            _ => Vec::new(),
        };
        let soa = Entry::Rec(
            RecDen {
                owner: OwnerSel::Name(owner.clone(), false),
                ttl: if tc.writes_ttl() { ttl } else { None },
                rvar: rvar.clone(),
            },
            RecSyn {
                owner_form,
                tc,
                name_form,
                name_esc,
                layout: *layout,
                blank,
                comment,
                class_text: None,
                type_text: None,
                strict: true,
            },
        );
        let other = || -> Entry {
            let rv = rdata_variants(RecordType::A, &origin, 0).remove(0);
            let mut syn = RecSyn::plain(TtlClass::TtlIn);
            syn.owner_form = NameForm::Abs;
            Entry::Rec(
                RecDen {
                    owner: OwnerSel::Name(child("www", &owner), false),
                    ttl: Some(300),
                    rvar: rv,
                },
                syn,
            )
        };
        let mut entries = vec![Entry::Origin { name: origin.clone(), relative: false, hidden: false }];
        match context {
            0 => entries.push(soa),
            1 => {
                entries.push(soa);
                entries.push(other());
            }
            _ => {
                if !tc.writes_ttl() {
                    // the SOA then inherits 300 from the record before it
                }
                entries.push(other());
                entries.push(soa);
            }
        }
        Some(FileSpec { entries, noise: 0 })
    }
}

// ---------------------------------------------------------------------------
// S5: owners that look like a TTL, a class or a type (generated on purpose)
// ---------------------------------------------------------------------------

pub const DIGIT_OWNERS: [&str; 4] = ["3", "300", "007", "4294967296"];
/// class / type mnemonics, and tokens that a lenient number parser takes for a
/// number although they are not made of digits only (`u32::from_str` accepts a
/// leading `+`)
pub const KEYWORD_OWNERS: [&str; 11] = ["IN", "A", "TXT", "SOA", "MX", "NS", "PTR", "+600", "+0", "-1", "0x10"];

pub struct OddOwners {
    owners: Vec<&'static str>,
    types: Vec<RecordType>,
    frames: Vec<Frame>,
}

impl OddOwners {
    pub fn new(digits: bool) -> OddOwners {
        OddOwners {
            owners: if digits { DIGIT_OWNERS.to_vec() } else { KEYWORD_OWNERS.to_vec() },
            types: vec![RecordType::PTR, RecordType::A, RecordType::TXT, RecordType::MX],
            frames: vec![Frame::AuthSoaFirst, Frame::NonAuth, Frame::AuthSoaLowTtl],
        }
    }
    pub fn count(&self) -> usize {
        // owner x type x ttl/class x frame x position (first / after another
        // record) x owner form x wildcard-of-previous
        self.owners.len() * self.types.len() * 5 * self.frames.len() * 2 * 2 * 2
    }
    pub fn spec(&self, idx: usize) -> Option<FileSpec> {
        let mut r = Radix(idx);
        let prev_wild = r.take(2) == 1;
        let owner_form = if r.take(2) == 0 { NameForm::Rel } else { NameForm::Abs };
        let second = r.take(2) == 1;
        let frame = r.pick(&self.frames);
        let tc = r.pick(&TTL_CLASS);
        let t = r.pick(&self.types);
        let o = r.pick(&self.owners);
        if !second && prev_wild {
            return None;
        }
        let origin = frame.origin();
        let mut inner = Vec::new();
        if second {
            let rv = rdata_variants(RecordType::A, &origin, 0).remove(0);
            inner.push(Entry::Rec(
                RecDen {
                    owner: OwnerSel::Name(child("www", &origin), prev_wild),
                    ttl: Some(600),
                    rvar: rv,
                },
                RecSyn::plain(TtlClass::TtlIn),
            ));
        }
        let rv = rdata_variants(t, &origin, 0).remove(0);
        let mut syn = RecSyn::plain(tc);
        syn.owner_form = owner_form;
        inner.push(Entry::Rec(
            RecDen {
                owner: OwnerSel::Name(child(o, &origin), false),
                ttl: if tc.writes_ttl() { Some(300) } else { None },
                rvar: rv,
            },
            syn,
        ));
        Some(frame.wrap(inner, 0))
    }
}

// ---------------------------------------------------------------------------
// base corpus for C13 / C17
// ---------------------------------------------------------------------------

/// Valid, conventionally written files (every type once, both kinds of zone,
/// multi-line SOA, wildcard and apex records, `$ORIGIN` changes).
pub fn base_corpus() -> Vec<String> {
    let mut out = Vec::new();
    for frame in [Frame::AuthSoaFirst, Frame::NonAuth] {
        let origin = frame.origin();
        let mut inner = Vec::new();
        for (i, t) in NON_SOA_TYPES.iter().enumerate() {
            let rv = rdata_variants(*t, &origin, 0).remove(0);
            let owner = match i % 4 {
                0 => OwnerSel::Name(child("www", &origin), false),
                1 => OwnerSel::Inherit,
                2 => OwnerSel::Name(origin.clone(), false),
                _ => OwnerSel::Name(child("www", &origin), true),
            };
            let tc = TTL_CLASS[i % 5];
            inner.push(Entry::Rec(
                RecDen {
                    owner,
                    ttl: if tc.writes_ttl() { Some(300 + i as u32) } else { None },
                    rvar: rv,
                },
                RecSyn::plain(tc),
            ));
        }
        if let Some(b) = build(&frame.wrap(inner, 1), Hyp::default()) {
            out.push(b.text);
        }
    }
    // RFC 1035 section 5.3 style SOA, every parenthesis spaced
    out.push(
        "$ORIGIN ex.\n@   IN  SOA     ns1      admin\\.contact (\n                 20     ; SERIAL\n                 7200   ; REFRESH\n                 600    ; RETRY\n                 3600000; EXPIRE\n                 60 )   ; MINIMUM\n\n        NS      ns1\n        NS      ns2.other.\n        MX      10      mail\n        MX      20      mail.other.\n\nns1     300 A       10.0.0.1\n        A       10.0.0.2\nmail    A       10.0.0.3\n*.wild  60 IN TXT \"wild card\"\n$ORIGIN sub\nhost    IN 3600 AAAA fd00::1\n"
            .to_string(),
    );
    out.push(". 3600000 IN NS a.root-servers.net.\na.root-servers.net. 3600000 A 198.41.0.4\n 3600000 AAAA 2001:503:ba3e::2:30\n".to_string());
    out.push("*. 5 IN A 10.0.0.1\nx\\.y.ex. 5 IN HINFO \"a \\\"b\\\" \\\\ c\"\n\\@.ex. 5 IN WKS \\000\\255\n".to_string());
    out
}

// ---------------------------------------------------------------------------
// a job pool for coarse work items (child processes): `par_fold` hands out
// blocks of at least 64 indices, which serialises a list of a few dozen jobs
// ---------------------------------------------------------------------------

/// Run `f(acc, i)` for every `i in 0..n`, one index at a time, on `threads`
/// workers; returns the per-worker accumulators.
pub fn par_jobs<A, F, M>(n: usize, threads: usize, init: M, f: F) -> Vec<A>
where
    A: Send,
    M: Fn() -> A + Sync,
    F: Fn(&mut A, usize) + Sync,
{
    let next = std::sync::atomic::AtomicUsize::new(0);
    let mut out = Vec::new();
    std::thread::scope(|s| {
        let mut handles = Vec::new();
        for _ in 0..threads.max(1).min(n.max(1)) {
            handles.push(s.spawn(|| {
                let mut acc = init();
                loop {
                    let i = next.fetch_add(1, std::sync::atomic::Ordering::Relaxed);
                    if i >= n {
                        break;
                    }
                    f(&mut acc, i);
                }
                acc
            }));
        }
        for h in handles {
            match h.join() {
                Ok(a) => out.push(a),
                Err(_) => {
                    eprintln!("worker thread panicked (machinery error)");
                    std::process::exit(2);
                }
            }
        }
    });
    out
}
